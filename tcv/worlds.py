"""E1 - generated pipelines ("worlds"): task classes, config files, contexts; runtime with invocation log,
provenance terms, fault plan.

A world descriptor is a JSON value (see DESIGN.md §3 E1; the practical grammar is documented at `DESC` below).
`World(desc, root_dir)` materialises: an importable synthetic module holding the task classes (built with exec so
that `run` has exactly the wanted argument names and return annotation), config files per variant, and builds real
`Config`/`Chain`/`MultiChain` objects on demand. Nothing here judges anything - the oracle is tcv/refmodel.py.

DESC:
  tasks:   {key: {name?, group?, module_group?: bool, abstract?: bool, params: [pdecl], inputs: [idecl], data: kind,
                  run: 'args'|'registry'|'lazy'}}
     pdecl: {name, nic?, default?(JSON; absent = required), ignore?: bool, dpdv?: bool, dtype?: 'int'|'str'|'Path'|...}
     idecl: {how: 'class'|'name'|'opt_class'|'opt_name'|'pattern', ref: <task key | literal string>, default?}
  configs: {cid: {medium: 'json'|'yaml'|'inline'|'part', file?: str, part?: str, main_part?: bool, dir?: str,
                  tasks: [task key | literal import string], excluded?: [...], values: {..}, uses: [{config: cid, as?: ns}]}}
  root: cid | [cid...] (list => MultiChain)
  context: ctxdecl | None      ctxdecl: {kind:'dict'|'json'|'yaml'|'object', data:{}, for_namespaces?:{}, uses?:[{ctx: ctxdecl(file kinds), as?: ns}]}
                                         | {kind:'list', items:[ctxdecl]}
  global_vars: {NAME: value} | None
  variants: {vid: [[path, value], ...]}   # assignments applied to a deep copy of the descriptor
"""
import copy
import hashlib
import io
import json
import os
import sys
import types
from pathlib import Path

import numpy as np
import pandas as pd
import yaml

KINDS = ('json', 'json_list', 'numpy', 'pandas', 'series', 'generator', 'generator_lazy', 'list_of_numpy', 'dir',
         'continues', 'inmemory')

_MODULE_COUNTER = [0]


def canon_json(obj) -> bytes:
    return json.dumps(obj, sort_keys=True, ensure_ascii=False, separators=(',', ':')).encode('utf-8')


def apply_variant(desc, vid):
    d = copy.deepcopy({k: v for k, v in desc.items() if k != 'variants'})
    for path, value in (desc.get('variants') or {}).get(vid, []) if vid is not None else []:
        cur = d
        for p in path[:-1]:
            if isinstance(cur, dict) and p not in cur:
                cur[p] = {}
            cur = cur[p]
        if value == '__delete__':
            del cur[path[-1]]
        else:
            cur[path[-1]] = copy.deepcopy(value)
    d.pop('variants', None)
    return d


class Runtime:
    """Harness-side state consulted by every generated run(): invocation log, fault plan, run counters."""

    def __init__(self, world):
        self.world = world
        self.log = []  # [fullname, key, class key]
        self.faults = {}  # class key -> [fault kind, ...] consumed one per run
        self.runs_per_key = {}

    def reset(self):
        self.log.clear()
        self.faults.clear()
        self.runs_per_key.clear()


class Fault(Exception):
    pass


class Interrupt(KeyboardInterrupt):
    """a run that is interrupted (Ctrl-C in a notebook): a failing run that is not an `Exception`"""


class _Unsaveable:
    def __reduce__(self):
        raise TypeError('this object cannot be saved')


class World:
    def __init__(self, desc, root_dir, modname_unique=True):
        self.desc = desc
        self.root_dir = str(root_dir)
        # deterministic dotted module name (package:module groups of ModuleTask / DoubleModuleTask must be reproducible
        # across processes, the golden vectors of C12 pin them); unique suffix only if the name is taken in this process
        if 'tcvpkg' not in sys.modules:
            pkg = types.ModuleType('tcvpkg')
            pkg.__path__ = []
            sys.modules['tcvpkg'] = pkg
        base = desc.get('_modname') or ('tcvpkg.w' + hashlib.sha256(canon_json({k: desc[k] for k in ('tasks',)})).hexdigest()[:10])
        self.modname = base
        if base in sys.modules:
            if modname_unique:
                _MODULE_COUNTER[0] += 1
                self.modname = f'{base}_{_MODULE_COUNTER[0]}'
            else:
                sys.modules.pop(base)
        self.rt = Runtime(self)
        self.classes = {}
        self._build_module()
        self._written = set()

    # ------------------------------------------------------------------ module with task classes
    def _build_module(self):
        import taskchain
        from taskchain import data as tdata
        from taskchain.parameter import AutoParameterObject, InputTaskParameter, Parameter, ParameterObject

        mod = types.ModuleType(self.modname)
        # helpers live in one underscore namespace: the library resolves `mod.Name` import strings by PREFIX match over
        # the module dict in insertion order, so nothing but the task classes (first) and object classes may be visible
        mod._h = types.SimpleNamespace(
            Task=taskchain.Task, ModuleTask=taskchain.ModuleTask, DoubleModuleTask=taskchain.DoubleModuleTask, Parameter=Parameter, InputTaskParameter=InputTaskParameter,
            Path=Path, np=np, pd=pd, tdata=tdata, Generator=__import__('collections.abc').abc.Generator,
            AutoParameterObject=AutoParameterObject, ParameterObject=ParameterObject, int=int, str=str, float=float,
        )
        mod._W = self
        sys.modules[self.modname] = mod
        src = []
        order = self._class_order()
        for key in order:
            src.append(self._class_source(key, self.desc['tasks'][key]))
        src.append(_OBJECT_CLASSES)
        code = '\n'.join(src)
        self.source = code
        exec(compile(code, f'<{self.modname}>', 'exec'), mod.__dict__)
        for key in order:
            cls = mod.__dict__[key]
            cls.__module__ = self.modname
            cls._tcv_key = key
            self.classes[key] = cls
        for name in ('Auto1', 'Auto2', 'Auto3', 'AutoSet', 'AutoBoth', 'AutoRaw', 'AutoVar', 'AutoTuple', 'Plain1', 'Hand1', 'MemBox', 'MemBag', 'TitledJson'):
            mod.__dict__[name].__module__ = self.modname
        self.module = mod
        public = [n for n in mod.__dict__ if not n.startswith('_')]
        for key in order:
            first = next(n for n in public if n.startswith(key))
            if first != key:
                raise ValueError(f'class key {key} is shadowed by {first} under the library\'s prefix matching of import strings')

    def _class_order(self):
        """classes referenced by class must be defined first; cycles by class reference are broken by string fallback"""
        tasks = self.desc['tasks']
        order, seen, stack = [], set(), set()
        self._late = set()  # (key, ref) pairs that must be injected after definition (cyclic by-class refs)

        def visit(k):
            if k in seen:
                return
            if k in stack:
                return
            stack.add(k)
            for i in tasks[k].get('inputs', []):
                if i['how'] in ('class', 'opt_class') and i['ref'] in tasks:
                    if i['ref'] in stack:
                        self._late.add((k, i['ref']))
                    else:
                        visit(i['ref'])
            stack.discard(k)
            seen.add(k)
            order.append(k)

        for k in tasks:
            visit(k)
        return order

    def _class_source(self, key, t):
        base = {'module': '_h.ModuleTask', 'double': '_h.DoubleModuleTask', True: '_h.ModuleTask'}.get(t.get('module_group'), '_h.Task')
        meta = []
        if 'name' in t and t['name'] is not None:
            meta.append(f"name = {t['name']!r}")
        if t.get('group'):
            meta.append(f"task_group = {t['group']!r}")
        if t.get('abstract'):
            meta.append('abstract = True')
        params = []
        for p in t.get('params', []):
            a = [repr(p['name'])]
            if 'dtype' in p:
                a.append(f"dtype=_h.{p['dtype']}")
            if 'default' in p:
                a.append(f"default={p['default']!r}")
            if 'nic' in p:
                a.append(f"name_in_config={p['nic']!r}")
            if p.get('ignore'):
                a.append('ignore_persistence=True')
            if p.get('dpdv'):
                a.append('dont_persist_default_value=True')
            params.append(f"_h.Parameter({', '.join(a)})")
        inputs = []
        for i in t.get('inputs', []):
            how, ref = i['how'], i['ref']
            if how == 'class':
                if (key, ref) in self._late:
                    inputs.append(f'"__LATE__{ref}"')
                else:
                    inputs.append(ref)
            elif how in ('name', 'pattern'):
                inputs.append(repr(ref))
            elif how == 'opt_class':
                params.append(f"_h.InputTaskParameter({ref}, default={i.get('default')!r})")
            elif how == 'opt_name':
                params.append(f"_h.InputTaskParameter({ref!r}, default={i.get('default')!r})")
            else:
                raise ValueError(how)
        meta.append(f"parameters = [{', '.join(params)}]")
        meta.append(f"input_tasks = [{', '.join(inputs)}]")
        kind = t.get('data', 'json')
        ann, dc = _KIND_ANN[kind]
        if dc:
            meta.append(f'data_class = {dc}')
        style = t.get('run', 'registry')
        if style == 'args':
            args = [p['name'] for p in t.get('params', [])]
            for i in t.get('inputs', []):
                args.append(self.arg_name(i))
        else:
            args = []
        sig = ', '.join(['self'] + args)
        body = '{' + ', '.join(f'{a!r}: {a}' for a in args) + '}'
        lines = [f'class {key}({base}):', '    class Meta:'] + [f'        {m}' for m in meta]
        if kind in ('generator', 'generator_lazy', 'generator0'):
            lines += [f'    def run({sig}) -> {ann}:', f'        yield from _W.run(self, {key!r}, {body})']
        else:
            lines += [f'    def run({sig}) -> {ann}:', f'        return _W.run(self, {key!r}, {body})']
        return '\n'.join(lines) + '\n'

    def arg_name(self, i):
        """python identifier under which run() receives this input in 'args' style: the task's short name"""
        ref = i['ref']
        if i['how'] in ('class', 'opt_class'):
            t = self.desc['tasks'][ref]
            return t.get('name') or _slug(ref)
        return ref.split('::')[-1].split(':')[-1]

    # ------------------------------------------------------------------ run-time behaviour of generated tasks
    def run(self, task, key, args):
        rt = self.rt
        t = self.desc['tasks'][key]
        kind = t.get('data', 'json')
        persisted = kind not in ('inmemory', 'inmemory_empty')
        skey = task.name_for_persistence if task.get_config() is not None and task.get_config().base_dir is not None else None
        rt.log.append([task.fullname, skey, key])
        ident = (key, skey) if persisted else (key, id(task))
        gen = rt.runs_per_key.get(ident, 0)
        rt.runs_per_key[ident] = gen + 1
        fault = None
        if rt.faults.get(key):
            fault = rt.faults[key].pop(0)
        task.logger.info(f'tcv {key} gen{gen} begin')
        rich_state = None
        if self.desc.get('_rich_records'):
            # records of different length per generation (a rewrite that does not truncate shows), a message from a helper thread of run()
            task.save_to_run_info({'tcv': key, 'gen': gen, 'seq': 0, 'pad': rich_pad(gen)})
            # running totals: ONE defaultdict and ONE plain dict (holding a list) recorded now and again later, updated in between
            import collections
            rich_state = (collections.defaultdict(int), {'seen': [gen]})
            rich_state[0]['n'] += 1
            task.save_to_run_info(rich_state[0])
            task.save_to_run_info(rich_state[1])
            import threading
            th = threading.Thread(target=lambda: task.logger.info(f'tcv {key} gen{gen} helper'))
            th.start()
            th.join()
        else:
            task.save_to_run_info({'tcv': key, 'gen': gen, 'seq': 0})
        if fault == 'raise':
            raise Fault(f'{key} raise')
        if fault == 'interrupt':
            raise Interrupt(f'{key} interrupt')
        style = t.get('run', 'registry')
        params = {}
        for p in t.get('params', []):
            v = args[p['name']] if style == 'args' else task.params[p['name']]
            params[p['name']] = jsonable(v)
        wanted = None
        if style == 'lazy':
            wanted = params.get('sel')
        inputs = {}
        for i in t.get('inputs', []):
            label = self.input_label(i)
            if i['how'] == 'pattern':
                # all matched tasks: enumerate the registry, keep those not declared otherwise
                for name, it in task.input_tasks.items():
                    if _is_task(it) and self._matched_by_pattern(task, t, name):
                        inputs['~' + self._rel(task, name)] = self.decode_task_value(it)
                continue
            if wanted is not None and label not in wanted:
                continue
            if style == 'args':
                v = args[self.arg_name(i)]
                it = task.input_tasks[self.lookup_ref(i)] if self.lookup_ref(i) in task.input_tasks else None
                inputs[label] = self.decode(v, self._kind_of_obj(it))['term'] if _is_task(it) else {'default': jsonable(v)}
            else:
                ref = self.lookup_ref(i)
                if ref in task.input_tasks:
                    it = task.input_tasks[ref]
                    inputs[label] = self.decode_task_value(it) if _is_task(it) else {'default': jsonable(it)}
                else:
                    inputs[label] = {'default': jsonable(i.get('default'))}
        term = {'t': key, 'p': params, 'i': inputs}
        payload = {'term': term, 'gen': gen}
        if rich_state is not None:
            rich_state[0]['n'] += 1
            rich_state[1]['seen'].append(1)
            task.save_to_run_info(rich_state[0])
            task.save_to_run_info(rich_state[1])
        if self.desc.get('_shrinking') and kind not in ('generator', 'generator_lazy', 'inmemory', 'inmemory_empty'):
            # every later run of one computation returns a SHORTER value: leftovers of an earlier attempt that are not truncated show
            payload['pad'] = 'x' * (90, 40, 0)[min(gen, 2)]
        task.logger.info(f'tcv {key} gen{gen} end')
        task.save_to_run_info({'tcv': key, 'gen': gen, 'seq': 1})
        if fault == 'raise_late':
            raise Fault(f'{key} raise_late')
        if fault == 'wrong_type':
            return _WRONG[kind]
        if fault == 'unserialisable':
            payload = dict(payload, bad=object())
            if kind not in ('json', 'json_list', 'generator', 'generator_lazy', 'list_of_numpy'):
                raise Fault(f'{key} unserialisable n/a for {kind}')
        return self.encode(task, kind, payload, fault)

    def _matched_by_pattern(self, task, t, name):
        declared = set()
        for i in t.get('inputs', []):
            if i['how'] != 'pattern':
                declared.add(self.lookup_ref(i))
        short = name.split('::')[-1]
        import re
        for i in t.get('inputs', []):
            if i['how'] == 'pattern' and re.fullmatch(i['ref'].lstrip('~'), short):
                return True
        return False

    def _rel(self, task, name):
        ns = task.get_config().namespace
        if ns and name.startswith(ns + '::'):
            return name[len(ns) + 2:]
        return name

    def input_label(self, i):
        return i['ref']

    def lookup_ref(self, i):
        """string under which the generated run() asks task.input_tasks for this input"""
        if i['how'] in ('class', 'opt_class'):
            return self.classes[i['ref']].slugname if i['ref'] in self.classes else i['ref']
        return i['ref']

    def _kind_of_obj(self, task_obj):
        key = getattr(task_obj.__class__, '_tcv_key', None)
        return self.desc['tasks'][key].get('data', 'json') if key else 'json'

    def decode_task_value(self, task_obj):
        return self.decode(task_obj.value, self._kind_of_obj(task_obj))['term']

    # encoding of the provenance payload in each storable data type -------------------------------------------
    def encode(self, task, kind, payload, fault=None):
        raw = canon_json(payload) if 'bad' not in payload else None
        if kind == 'json':
            return payload
        if kind == 'json_list':
            return [payload]
        if kind == 'numpy':
            return np.frombuffer(raw, dtype=np.uint8).copy()
        if kind == 'pandas':
            return pd.DataFrame({'b': list(raw)}, dtype='uint8')
        if kind == 'series':
            return pd.Series(list(raw), dtype='uint8', name='b')
        if kind in ('generator', 'generator_lazy'):
            return self._gen(payload, fault)
        if kind == 'generator0':
            return iter(())
        if kind == 'lon0':
            return []
        if kind == 'dir0':
            return task.get_data_object()
        if kind == 'list_of_numpy':
            if 'bad' in payload:
                a = np.frombuffer(canon_json({k: v for k, v in payload.items() if k != 'bad'}), dtype=np.uint8).copy()
                return list(np.array_split(a, LON_PARTS)) + [a[:3], _Unsaveable()]  # a LONGER list whose last element numpy cannot save
            a = np.frombuffer(raw, dtype=np.uint8).copy()
            return list(np.array_split(a, LON_PARTS))   # more than ten arrays: 0.npy .. 11.npy come back in numeric order only
        if kind in ('dir', 'continues', 'dirlink'):
            data = task.get_data_object()
            d = data.dir
            if kind == 'dirlink':
                # a relative symlink that leaves the result directory: links the stored file of the first file-type input
                for it in task.input_tasks.values():
                    if _is_task(it) and it.data_path is not None and it.has_data and it.data_path.is_file():
                        os.symlink(os.path.relpath(str(it.data_path), str(data.path)), str(d / 'input_link'))
                        break
            if kind == 'continues':
                # resumable: step files survive a failed attempt and are seen by the next one; a checkpoint file exists only
                # while the work is unfinished
                (d / 'checkpoint').write_text('in progress')
                steps = sorted(p.name for p in d.glob('step*'))
                (d / f'step{len(steps)}').write_text('done')
                if fault == 'raise_partial':
                    raise Fault('continues raise_partial')
            if kind == 'dir':
                # attempt-specific file: a directory result must be built from a clean work directory, so output left
                # behind by a dead earlier attempt must never show up in the published result
                (d / f'attempt_{payload["gen"]}').write_text('a')
            (d / 'sub').mkdir(exist_ok=True)
            (d / 'sub' / 'x.txt').write_text('x' * 10)
            if fault == 'raise_partial':
                raise Fault('dir raise_partial')
            (d / 'term.json').write_bytes(raw)
            if kind == 'continues':
                (d / 'checkpoint').unlink()
                data.finished()
            return data
        if kind == 'json_titled':
            d = self.module.TitledJson(f'result of {task.fullname}')
            d.set_value(payload)
            return d
        if kind == 'inmemory_empty':
            box = self.module.MemBag()
            box.payload = payload
            return box
        if kind == 'inmemory':
            box = self.module.MemBox()
            box.payload = payload
            return box
        raise ValueError(kind)

    def _gen(self, payload, fault):
        yield ['term', payload['term']]
        if fault == 'gen_raise_0':
            raise Fault('generator raises after 1 item')
        yield ['gen', payload['gen']]
        if 'bad' in payload:
            yield ['bad', payload['bad']]
        if fault == 'gen_raise_1':
            raise Fault('generator raises after 2 items')
        yield ['end', 0]

    def decode(self, value, kind):
        """-> payload {'term':..., 'gen':...}; raises ValueError if the value is not a complete well-formed payload"""
        if kind in ('json', 'json_titled'):
            p = value
        elif kind == 'json_list':
            if not (isinstance(value, list) and len(value) == 1):
                raise ValueError(f'json_list payload malformed: {value!r}')
            p = value[0]
        elif kind == 'numpy':
            if not (isinstance(value, np.ndarray) and value.dtype == np.uint8 and value.ndim == 1):
                raise ValueError(f'numpy payload malformed: {value!r}')
            p = json.loads(value.tobytes().decode('utf-8'))
        elif kind == 'pandas':
            if not (isinstance(value, pd.DataFrame) and list(value.columns) == ['b']):
                raise ValueError('pandas payload malformed')
            p = json.loads(bytes(value['b'].tolist()).decode('utf-8'))
        elif kind == 'series':
            if not isinstance(value, pd.Series):
                raise ValueError('series payload malformed')
            p = json.loads(bytes(value.tolist()).decode('utf-8'))
        elif kind in ('generator', 'generator_lazy'):
            if callable(value):
                value = value()
            items = list(value)
            if len(items) != 3 or [i[0] for i in items] != ['term', 'gen', 'end']:
                raise ValueError(f'generated payload incomplete: {items!r}')
            p = {'term': items[0][1], 'gen': items[1][1]}
        elif kind == 'list_of_numpy':
            if not (isinstance(value, list) and len(value) == LON_PARTS):
                raise ValueError(f'list_of_numpy payload incomplete: {len(value) if isinstance(value, list) else value!r} parts')
            p = json.loads(np.concatenate(value).tobytes().decode('utf-8'))
        elif kind in ('dir', 'continues', 'dirlink'):
            d = Path(value)
            names = sorted(str(x.relative_to(d)) for x in d.rglob('*'))
            want = ['sub', 'sub/x.txt', 'term.json'] + ([n for n in names if n.startswith('step')] if kind == 'continues' else [])
            if kind == 'dirlink' and 'input_link' in names:
                want.append('input_link')
                try:
                    json.loads((d / 'input_link').read_bytes().decode('utf-8'))  # the linked input must be readable through the result
                except Exception as e:  # noqa
                    raise ValueError(f'directory payload: linked input not readable through the result: {type(e).__name__}')
            if kind == 'dir':
                want += [n for n in names if n.startswith('attempt_')][:1]
            if sorted(names) != sorted(want) or (d / 'sub' / 'x.txt').read_text() != 'x' * 10:
                raise ValueError(f'directory payload incomplete or polluted: {names}')
            p = json.loads((d / 'term.json').read_bytes().decode('utf-8'))
            if kind == 'dir' and f'attempt_{p.get("gen")}' not in names:
                raise ValueError(f'directory payload holds the output of another attempt: {names} for generation {p.get("gen")}')
        elif kind in ('inmemory', 'inmemory_empty'):
            p = value.payload
        elif kind in ('generator0', 'lon0', 'dir0'):
            # legitimately EMPTY results (zero items / zero arrays / empty directory): no room for a provenance term
            empty = (list(Path(value).iterdir()) == []) if kind == 'dir0' else (list(value) == [])
            if not empty:
                raise ValueError(f'{kind} payload not empty: {value!r}')
            p = {'term': {'empty': kind}, 'gen': 0}
        else:
            raise ValueError(kind)
        if isinstance(p, dict) and 'pad' in p and isinstance(p['pad'], str) and set(p['pad']) <= {'x'}:
            p = {k: v for k, v in p.items() if k != 'pad'}
        if not (isinstance(p, dict) and set(p) == {'term', 'gen'}):
            raise ValueError(f'payload malformed: {p!r}')
        return p

    # ------------------------------------------------------------------ configs
    def import_string(self, t):
        return f'{self.modname}.{t}' if t in self.desc['tasks'] else t.replace('<mod>', self.modname)

    def config_dir(self, vid):
        if self.desc.get('_shared_cfg'):
            # all variants live at the SAME paths: building another variant edits the config files in place (per process:
            # forked workers must not rewrite each other's files)
            return os.path.join(self.root_dir, 'configs', f'shared_{os.getpid()}')
        return os.path.join(self.root_dir, 'configs', str(vid))

    def _config_payload(self, d, cid):
        c = d['configs'][cid]
        data = {}
        if c.get('tasks') is not None:
            data['tasks'] = [self.import_string(t) for t in c['tasks']]
        if c.get('excluded'):
            data['excluded_tasks'] = [self.import_string(t) for t in c['excluded']]
        if c.get('uses'):
            data['uses'] = [self._use_string(d, cid, u) for u in c['uses']]
        for k, v in (c.get('values') or {}).items():
            data[k] = self._value_for_config(v)
        if c.get('main_part'):
            data['main_part'] = True
        if c.get('key_order'):
            data = {k: data[k] for k in c['key_order'] if k in data} | {k: v for k, v in data.items() if k not in c['key_order']}
        return data

    def _value_for_config(self, v, memo=None):
        """descriptor value -> config value (object definitions get their import string). Container objects that occur
        several times in the descriptor value stay ONE object in the config value (as YAML aliases would give)."""
        memo = {} if memo is None else memo
        if isinstance(v, (dict, list)) and id(v) in memo:
            return memo[id(v)]
        if isinstance(v, dict) and '__obj__' in v:
            out = {'class': f'{self.modname}.{v["__obj__"]}'}
            memo[id(v)] = out
            if 'args' in v:
                out['args'] = [self._value_for_config(x, memo) for x in v['args']]
            if 'kwargs' in v:
                out['kwargs'] = {k: self._value_for_config(x, memo) for k, x in v['kwargs'].items()}
            return out
        if isinstance(v, dict):
            out = {}
            memo[id(v)] = out
            for k, x in v.items():
                out[k] = self._value_for_config(x, memo)
            return out
        if isinstance(v, list):
            out = []
            memo[id(v)] = out
            out.extend(self._value_for_config(x, memo) for x in v)
            return out
        return v

    def _file_of(self, d, cid, vid):
        c = d['configs'][cid]
        ext = {'json': 'json', 'yaml': 'yaml', 'part': c.get('ext', 'json')}[c['medium']]
        fname = c.get('file') or (f'{cid}.{ext}')
        sub = c.get('dir')
        base = self.config_dir(vid)
        return os.path.join(base, sub, fname) if sub else os.path.join(base, fname)

    def _use_string(self, d, cid, u):
        c = d['configs'][cid]
        target = d['configs'][u['config']]
        if target['medium'] == 'part' and c['medium'] == 'part' and (target.get('file') == c.get('file')) and not u.get('abs'):
            s = f'#{target["part"]}'
        elif target['medium'] == 'part':
            s = '{CFG}/' + self._rel_file(d, u['config']) + f'#{target["part"]}'
        elif target['medium'] == 'inline':
            raise ValueError('inline configs are used as objects')
        else:
            s = '{CFG}/' + self._rel_file(d, u['config'])
        if u.get('as'):
            s += f' as {u["as"]}'
        return s

    def _rel_file(self, d, cid):
        c = d['configs'][cid]
        ext = {'json': 'json', 'yaml': 'yaml', 'part': c.get('ext', 'json')}[c['medium']]
        fname = c.get('file') or f'{cid}.{ext}'
        return os.path.join(c['dir'], fname) if c.get('dir') else fname

    def write_configs(self, d, vid):
        """(re)write all config/context files of variant `vid`. `{CFG}` in uses strings is substituted textually here
        (it is not a global var of the world) so config files hold absolute paths."""
        base = self.config_dir(vid)
        files = {}
        for cid, c in d['configs'].items():
            if c['medium'] == 'inline':
                continue
            path = self._file_of(d, cid, vid)
            payload = self._config_payload(d, cid)
            if c['medium'] == 'part':
                files.setdefault(path, {'configs': {}})['configs'][c['part']] = payload
            else:
                files[path] = payload
        for path, payload in files.items():
            os.makedirs(os.path.dirname(path), exist_ok=True)
            text = _dump(payload, path).replace('{CFG}', base)
            _write_if_changed(path, text)
        return base

    # ------------------------------------------------------------------ contexts
    def _context_arg(self, d, ctx, vid, counter):
        from taskchain import Context

        if ctx is None:
            return None
        k = ctx['kind']
        if k == 'list':
            return [self._context_arg(d, c, vid, counter) for c in ctx['items']]
        data = copy.deepcopy({kk: self._value_for_config(v) for kk, v in (ctx.get('data') or {}).items()})
        if ctx.get('for_namespaces'):
            data['for_namespaces'] = {ns: {kk: self._value_for_config(copy.deepcopy(v)) for kk, v in vals.items()} for ns, vals in ctx['for_namespaces'].items()}
        if ctx.get('uses'):
            uses = []
            for u in ctx['uses']:
                p = self._context_arg(d, u['ctx'], vid, counter)
                uses.append(f'{p} as {u["as"]}' if u.get('as') else str(p))
            data['uses'] = uses
        if k in ('dict', 'object') and d.get('_shared_ctx_objects'):
            # caller-owned context objects that live as long as the world: every construction whose context names the
            # same dict / Context object gets the SAME Python object (as a program that keeps its contexts in variables)
            memo = self.__dict__.setdefault('_ctx_memo', {})
            mk = json.dumps(ctx, sort_keys=True, default=str)
            if mk not in memo:
                memo[mk] = data if k == 'dict' else Context(data=data, name=ctx.get('name', 'ctxobj'))
            return memo[mk]
        if k == 'dict':
            return data
        if k in ('json', 'yaml'):
            counter[0] += 1
            name = ctx.get('file') or f'ctx{counter[0]}.{k}'
            path = os.path.join(self.config_dir(vid), 'contexts', name)
            os.makedirs(os.path.dirname(path), exist_ok=True)
            _write_if_changed(path, _dump(data, path))
            return path if not ctx.get('as_path_obj') else Path(path)
        if k == 'object':
            return Context(data=data, name=ctx.get('name', 'ctxobj'))
        raise ValueError(k)

    # ------------------------------------------------------------------ real objects
    def variant(self, vid):
        return apply_variant(self.desc, vid)

    def make_config(self, vid=None, base_dir=None, root=None, d=None, ctx_override=None):
        """fresh Config object(s) for the root of variant vid (inline configs are mutated by Chain, never reused)"""
        from taskchain import Config

        d = d or self.variant(vid)
        self.write_configs(d, vid)
        base_dir = Path(base_dir or os.path.join(self.root_dir, 'data'))
        root = root or d['root']
        ctxdecl = (d.get('contexts') or {}).get(root, d.get('context')) if not isinstance(root, list) else d.get('context')
        ctx = self._context_arg(d, ctxdecl, vid, [hash(str(root)) % 1000 * 10]) if ctx_override is None else ctx_override
        self.last_context_arg = ctx
        gv = self._global_vars(d)

        def build(cid, top=True):
            c = d['configs'][cid]
            kw = dict(global_vars=gv)
            if top:
                kw['context'] = ctx
            if c['medium'] == 'inline':
                data = self._config_payload_inline(d, cid, build)
                return Config(base_dir, name=c.get('cname', cid), data=data, **kw)
            path = self._file_of(d, cid, vid)
            if top and d.get('_top_namespace'):
                kw['namespace'] = d['_top_namespace']
            if top and d.get('_top_name'):
                kw['name'] = d['_top_name']
            if c['medium'] == 'part' and not c.get('main_part_implicit'):
                return Config(base_dir, path, part=c['part'], **kw) if c.get('via_part_arg') else Config(base_dir, f'{path}#{c["part"]}', **kw)
            return Config(base_dir, path, **kw)

        return build(root)

    def _config_payload_inline(self, d, cid, build):
        c = d['configs'][cid]
        data = {}
        if c.get('tasks') is not None:
            data['tasks'] = [self.classes[t] if (c.get('tasks_as_classes') and t in self.classes) else self.import_string(t) for t in c['tasks']]
        if c.get('excluded'):
            data['excluded_tasks'] = [self.import_string(t) for t in c['excluded']]
        uses = []
        for u in c.get('uses') or []:
            tgt = d['configs'][u['config']]
            if tgt['medium'] == 'inline':
                sub = build(u['config'], top=False)
                if u.get('as'):
                    sub.namespace = u['as']
                uses.append(sub)
            else:
                uses.append(self._use_string(d, cid, u).replace('{CFG}', self.config_dir(None if d is self.desc else self._cur_vid)))
        if uses:
            data['uses'] = uses
        for k, v in (c.get('values') or {}).items():
            data[k] = self._value_for_config(copy.deepcopy(v))
        return data

    def _global_vars(self, d):
        gv = d.get('global_vars')
        if gv is None:
            return None
        if isinstance(gv, dict) and gv.get('__as_object__'):
            ns = types.SimpleNamespace(**{k: v for k, v in gv.items() if k != '__as_object__'})
            return ns
        return dict(gv)

    def chain(self, vid=None, base_dir=None, parameter_mode=True, d=None, ctx_override=None):
        from taskchain import Chain, MultiChain

        d = d or self.variant(vid)
        self._cur_vid = vid
        root = d['root']
        if isinstance(root, list):
            cfgs = [self.make_config(vid, base_dir, root=r, d=d) for r in root]
            return MultiChain(cfgs, parameter_mode=parameter_mode)
        cfg = self.make_config(vid, base_dir, d=d, ctx_override=ctx_override)
        return Chain(cfg, parameter_mode=parameter_mode)

    def dispose(self):
        sys.modules.pop(self.modname, None)


def _write_if_changed(path, text):
    """config files are shared by forked workers: never truncate a file another process may be reading"""
    try:
        with io.open(path) as f:
            if f.read() == text:
                return
    except FileNotFoundError:
        pass
    tmp = f'{path}.{os.getpid()}.tmp'
    with io.open(tmp, 'w') as f:
        f.write(text)
    os.replace(tmp, path)


def _is_task(x):
    from taskchain import Task

    return isinstance(x, Task)


def _slug(class_name):
    import re

    name = re.sub(r'(?<!^)(?=[A-Z])', '_', class_name).lower()
    return name[:-5] if name.endswith('_task') else name


def _dump(payload, path):
    if str(path).endswith('.yaml'):
        return yaml.safe_dump(payload, sort_keys=False)
    return json.dumps(payload, indent=1)


LON_PARTS = 12


def rich_records(key, gen):
    """the records a run of generation `gen` adds in a world with _rich_records, in order"""
    return [{'tcv': key, 'gen': gen, 'seq': 0, 'pad': rich_pad(gen)}, {'n': 1}, {'seen': [gen]}, {'n': 2}, {'seen': [gen, 1]}, {'tcv': key, 'gen': gen, 'seq': 1}]


def rich_pad(gen):
    return 'x' * (80, 2, 30, 0)[gen % 4]


def jsonable(v):
    """JSON image of a parameter value as received by run (type-preserving enough for provenance)."""
    if isinstance(v, Path):
        return {'__path__': str(v)}
    if isinstance(v, (list, tuple)):
        return [jsonable(x) for x in v]
    if isinstance(v, dict):
        return {str(k): jsonable(x) for k, x in v.items()}
    if isinstance(v, (set, frozenset)):
        return {'__set__': sorted(jsonable(x) for x in v)}
    if isinstance(v, str):
        return str(v)
    if v is None or isinstance(v, (bool, int, float)):
        return v
    if hasattr(v, '_tcv_state'):
        return {'__obj__': type(v).__name__, 'state': jsonable(v._tcv_state())}
    return {'__repr__': repr(v)}


_KIND_ANN = {
    'json': ('dict', None),
    'json_list': ('list', None),
    'numpy': ('_h.np.ndarray', None),
    'pandas': ('_h.pd.DataFrame', None),
    'series': ('_h.pd.Series', None),
    'generator': ('_h.Generator', None),
    'generator_lazy': ('_h.Generator', '_h.tdata.GeneratedDataLazy'),
    'list_of_numpy': ('list', '_h.tdata.ListOfNumpyData'),
    'dir': ('_h.tdata.DirData', None),
    'dirlink': ('_h.tdata.DirData', None),
    'continues': ('_h.tdata.ContinuesData', None),
    'inmemory': ('"MemBox"', None),
    'inmemory_empty': ('"MemBag"', None),
    'json_titled': ('"TitledJson"', None),
    'generator0': ('_h.Generator', None),
    'lon0': ('list', '_h.tdata.ListOfNumpyData'),
    'dir0': ('_h.tdata.DirData', None),
}

_WRONG = {
    'json': (1, 2), 'json_list': {'a': 1}, 'numpy': [1, 2], 'pandas': {'a': 1}, 'series': [1], 'generator': None,
    'generator_lazy': None, 'list_of_numpy': {'a': 1}, 'dir': {'a': 1}, 'continues': {'a': 1}, 'inmemory': 5,
    'generator0': None, 'lon0': {'a': 1}, 'dir0': {'a': 1}, 'dirlink': {'a': 1}, 'inmemory_empty': 5, 'json_titled': {'a': 1},
}

_OBJECT_CLASSES = '''
class MemBox(_h.tdata.InMemoryData):
    def __init__(self):
        super().__init__()
        self.payload = None


class TitledJson(_h.tdata.JSONData):
    """a data class of the user's own, created inside run(); its constructor has an OPTIONAL argument"""
    DATA_TYPES = []   # chosen explicitly by the return annotation only, never as the handler of plain dicts

    def __init__(self, title='untitled'):
        super().__init__()
        self.title = title


class MemBag(MemBox):
    """container-style in-memory result: has a length, and a legitimately EMPTY bag is falsy"""
    def __init__(self):
        super().__init__()
        self.items = []

    def __len__(self):
        return len(self.items)


class Auto1(_h.AutoParameterObject):
    def __init__(self, a, b=0, verbose=False):
        self.a = a
        self._b = b
        self.verbose = verbose

    def _tcv_state(self):
        return {'a': self.a, 'b': self._b}

    @staticmethod
    def dont_persist_default_value_args():
        return []


class Auto2(_h.AutoParameterObject):
    """second auto class: one argument that is not persisted when default"""
    def __init__(self, a, c=5):
        self.a = a
        self.c = c

    def _tcv_state(self):
        return {'a': self.a, 'c': self.c}

    @staticmethod
    def dont_persist_default_value_args():
        return ['c']


class Auto3(Auto1):
    """subclass extending the constructor: its own argument must be part of the representation"""
    def __init__(self, a, pad=0):
        super().__init__(a)
        self.pad = pad

    def _tcv_state(self):
        return {'a': self.a, 'pad': self.pad}


class AutoSet(_h.AutoParameterObject):
    """keeps its argument as a set (a realistic way for a set to reach an AutoParameterObject attribute)"""
    def __init__(self, items):
        self.items = set(items)

    def _tcv_state(self):
        return {'items': sorted(self.items)}


class AutoBoth(_h.AutoParameterObject):
    """keeps the raw argument in `_cols` and ALSO exposes a derived public `cols`: the representation uses the raw one"""
    def __init__(self, cols):
        self._cols = cols
        self.cols = tuple(sorted(cols, key=repr))

    def _tcv_state(self):
        return {'cols': list(self._cols)}


class AutoRaw(_h.AutoParameterObject):
    """keeps the argument as written in `_path` and exposes a processed public `path` (what the substituted text says, upper-cased):
    the representation uses the stored raw argument, so it does not depend on the values of global variables"""
    def __init__(self, path):
        self._path = path

    @property
    def path(self):
        return str(self._path).upper()

    def _tcv_state(self):
        return {'path': self._path}


class AutoTuple(_h.AutoParameterObject):
    """an argument whose default is a tuple (a value no JSON / YAML config can spell): it is rendered as a tuple"""
    def __init__(self, a, size=(224, 224), pair=((1, 'x'), [2, (3,)])):
        self.a = a
        self.size = size
        self.pair = pair

    def _tcv_state(self):
        return {'a': self.a, 'size': repr(self.size), 'pair': repr(self.pair)}


class AutoVar(_h.AutoParameterObject):
    """variadic keyword arguments, stored (as the library requires) under the parameter's name"""
    def __init__(self, a, **options):
        self.a = a
        self.options = options

    def _tcv_state(self):
        return {'a': self.a, 'options': dict(self.options)}


class Plain1:
    """not a ParameterObject: representation comes from the instantiation definition"""
    def __init__(self, a, b=0):
        self.a = a
        self.b = b

    def _tcv_state(self):
        return {'a': self.a, 'b': self.b}


class Hand1(_h.ParameterObject):
    def __init__(self, a):
        self.a = a

    def repr(self):
        return f'Hand1<{self.a!r}>'

    def _tcv_state(self):
        return {'a': self.a}
'''
