"""Independent reference for task-name resolution (C10), on parsed components. Never imports taskchain."""
from itertools import combinations, permutations

NAMESPACES = ['', 'n', 'xn', 'm', 'n::m']
GROUPS = ['', 'g', 'xg', 'g:h']
NAMES = ['a', 'xa']


def make(ns, group, name):
    s = name
    if group:
        s = f'{group}:{s}'
    if ns:
        s = f'{ns}::{s}'
    return s


def parse(full):
    """-> (namespace components tuple, group components tuple, name)"""
    parts = full.split('::')
    ns = tuple(parts[:-1])
    local = parts[-1].split(':')
    return ns, tuple(local[:-1]), local[-1]


UNIVERSE = [make(ns, g, n) for ns in NAMESPACES for g in GROUPS for n in NAMES]


def forms(full):
    ns, g, n = parse(full)
    nss = '::'.join(ns)
    gs = ':'.join(g)
    out = {full, make('', gs, n), make(nss, '', n), make('', '', n)}
    return sorted(out, key=lambda s: (len(s), s))


ALL_QUERIES = sorted({q for f in UNIVERSE for q in forms(f)}, key=lambda s: (len(s), s))


def components(full):
    ns, g, n = parse(full)
    return ns + g + (n,)


def matches(query, full, determine_namespace=True):
    qns, qg, qn = parse(query)
    fns, fg, fn = parse(full)
    if qn != fn:
        return False
    if qns or not determine_namespace:
        if qns != fns:
            return False
    if qg != fg:
        # group may only be omitted entirely
        if qg:
            return False
    return True


AMBIGUOUS = 'AMBIGUOUS'
NOTFOUND = 'NOTFOUND'
UNSPECIFIED = 'UNSPECIFIED'


def _is_boundary_suffix(cand, other):
    """cand's textual form ends `other` at a `::` / `:` separator (or they are equal)."""
    if cand == other:
        return True
    if not other.endswith(cand):
        return False
    head = other[: len(other) - len(cand)]
    return head.endswith('::') or head.endswith(':')


def _is_component_suffix(cand, other):
    """A reading of 'less-nested form' on parsed parts: same name, namespace a suffix, group a suffix."""
    cns, cg, cn = parse(cand)
    ons, og, on = parse(other)
    if cn != on:
        return False
    return (len(cns) <= len(ons) and ons[len(ons) - len(cns):] == cns) and (len(cg) <= len(og) and og[len(og) - len(cg):] == cg)


def resolve(query, names, determine_namespace=True):
    """-> full name | AMBIGUOUS | NOTFOUND | UNSPECIFIED (the two readings of 'less nested' disagree)"""
    ms = [t for t in names if matches(query, t, determine_namespace)]
    if not ms:
        return NOTFOUND
    if len(ms) == 1:
        return ms[0]
    if query in ms:
        # "every task can be addressed by its full name": an exact full name identifies its task whatever else matches
        return query
    a = [c for c in ms if all(_is_boundary_suffix(c, t) for t in ms)]
    b = [c for c in ms if all(_is_component_suffix(c, t) for t in ms)]
    ra = a[0] if len(a) == 1 else AMBIGUOUS
    rb = b[0] if len(b) == 1 else AMBIGUOUS
    if ra != rb:
        return UNSPECIFIED
    return ra


def subsets(universe, max_size):
    for k in range(1, max_size + 1):
        yield from combinations(universe, k)
