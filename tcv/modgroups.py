"""Two-module scenario for module-derived task groups (ModuleTask / DoubleModuleTask): a task class in one module that
subclasses a concrete task class of ANOTHER module. The group (directory level and name prefix) of each class is the module it
is defined in - whatever the order in which the classes are declared, touched or used in the process."""
import sys
import types

_COUNTER = [0]

BASE_SRC = '''
from taskchain import Parameter
from taskchain.task import ModuleTask, DoubleModuleTask

class Clean(ModuleTask):
    class Meta:
        parameters = [Parameter('p', default=1)]
    def run(self, p) -> int:
        return p

class Wide(DoubleModuleTask):
    class Meta:
        parameters = [Parameter('p', default=1)]
    def run(self, p) -> int:
        return 10 + p
'''

SPECIAL_SRC = '''
from {base} import Clean, Wide

class CleanStrict(Clean):
    def run(self, p) -> int:
        return 100 + p

class WideStrict(Wide):
    def run(self, p) -> int:
        return 110 + p
'''


def fresh_modules():
    """-> (base module, special module); new class objects each time (what a class caches on itself starts empty)"""
    _COUNTER[0] += 1
    pkg = f'tcvmg{_COUNTER[0]}'
    for name in (pkg, f'{pkg}.sub'):
        m = types.ModuleType(name)
        m.__path__ = []
        sys.modules[name] = m
    base = types.ModuleType(f'{pkg}.sub.base_steps')
    sys.modules[base.__name__] = base
    exec(compile(BASE_SRC, base.__name__, 'exec'), base.__dict__)
    special = types.ModuleType(f'{pkg}.sub.special_steps')
    sys.modules[special.__name__] = special
    exec(compile(SPECIAL_SRC.format(base=base.__name__), special.__name__, 'exec'), special.__dict__)
    return base, special


EXPECTED = {'Clean': 'base_steps', 'CleanStrict': 'special_steps', 'Wide': 'sub:base_steps', 'WideStrict': 'sub:special_steps'}
ORDERS = (('Clean', 'CleanStrict', 'Wide', 'WideStrict'), ('CleanStrict', 'Clean', 'WideStrict', 'Wide'), ('WideStrict', 'CleanStrict', 'Clean', 'Wide'),
          ('CleanStrict', 'WideStrict'), ('Clean', 'Wide', 'CleanStrict', 'WideStrict'))


def observe(root, order, touch_first=()):
    """build a chain declaring the classes in `order` (after merely touching `.group` of `touch_first`), compute everything;
    -> {class name: (group, full name, path relative to the data directory, value)}"""
    import os
    from taskchain import Config

    base, special = fresh_modules()
    ns = dict(base.__dict__)
    ns.update(special.__dict__)
    for name in touch_first:
        ns[name].group  # noqa  (metaclass property)
    classes = [ns[n] for n in order]
    data_dir = os.path.join(root, 'data')
    from pathlib import Path
    ch = Config(Path(data_dir), name='mg', data={'tasks': classes}).chain()
    out = {}
    for n, cls in zip(order, classes):
        t = ch[cls.slugname]
        v = t.value
        out[n] = (t.group, t.fullname, os.path.relpath(str(t.data_path), data_dir), v)
    return out


# group, full name and location as release 1.4.0 derives them (default parameter p=1 -> key 348a00aa...; confirmed on the pinned commit)
GOLDEN = {
    'Clean': ('base_steps', 'base_steps:clean', 'base_steps/clean/348a00aa68c65e20cee9f56a4d7edd31.json', 1),
    'CleanStrict': ('special_steps', 'special_steps:clean_strict', 'special_steps/clean_strict/348a00aa68c65e20cee9f56a4d7edd31.json', 101),
    'Wide': ('sub:base_steps', 'sub:base_steps:wide', 'sub/base_steps/wide/348a00aa68c65e20cee9f56a4d7edd31.json', 11),
    'WideStrict': ('sub:special_steps', 'sub:special_steps:wide_strict', 'sub/special_steps/wide_strict/348a00aa68c65e20cee9f56a4d7edd31.json', 111),
}
TOUCH = ((), ('Clean', 'Wide'), ('CleanStrict', 'WideStrict'))


def cases():
    return [(o, t) for o in ORDERS for t in TOUCH]


def check(root):
    """-> (number of cases, [(what differs, detail, case)])"""
    bad = []
    n = 0
    for order, touch in cases():
        n += 1
        case = {'kind': 'module-groups', 'order': list(order), 'touch': list(touch)}
        try:
            got = observe(root, order, touch)
        except Exception as e:  # noqa
            bad.append(('chain of module-grouped tasks cannot be built / computed', f'{type(e).__name__}: {e}', case))
            continue
        for name, g in got.items():
            if tuple(g) != GOLDEN[name]:
                bad.append(('group / name / location of a module-grouped task is not the one of its own module',
                            f'declared in order {order}, groups touched first {touch}: {name} -> {g}, release 1.4.0: {GOLDEN[name]}', case))
                break
    return n, bad
