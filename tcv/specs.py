"""Alphabet specifications for history exploration over a world descriptor."""
from tcv import refmodel, worlds


def build(desc, variants=None, ops=('new', 'value', 'restart'), slots=2, tasks=None, faults=(), force_sets=None, **kw):
    variants = list(variants or desc['variants'])
    per = {}
    fs = {}
    for vid in variants:
        m = refmodel.Model(worlds.apply_variant(desc, vid), 'x')
        if m.error is not None:
            raise ValueError(f'variant {vid} of {desc["name"]} is not a valid configuration: {m.error}')
        names = sorted(m.tasks)
        per[vid] = [n for n in names if tasks is None or n in tasks]
        if force_sets is not None:
            fs[vid] = [f for f in force_sets if all(x in m.tasks for x in f)]
    spec = dict(slots=slots, variants=variants, tasks=per, ops=set(ops), faults=list(faults), force_sets=fs)
    spec.update(kw)
    return spec
