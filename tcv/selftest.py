"""setup_cmd: nothing to build (pure Python); verify the environment the checks rely on."""
import os
import sys


def main():
    import tcv

    tcv.quiet_library()
    import taskchain

    src = os.path.realpath(os.path.dirname(taskchain.__file__))
    want = os.path.realpath(os.path.join(tcv.REPO, 'src', 'taskchain'))
    assert src == want, f'taskchain imported from {src}, expected {want}'
    from tcv import scratch

    d = scratch.fresh('selftest')
    assert os.path.isdir(d)
    scratch.drop(d)
    from tcv.pool import pmap

    assert pmap(_sq, range(20)) == [i * i for i in range(20)]
    try:
        from tcv import selftest_extra

        selftest_extra.main()
    except ImportError:
        pass
    print('tcv selftest ok: taskchain from', src)
    return 0


def _sq(x):
    return x * x
