"""E5 - bounded exhaustive generators (simplest first)."""
from itertools import product

ATOMS_KEYS = [None, True, False, 0, 1, -1, 10, 1.0, 0.5, '', 'a', 'b', '1', 'None', 'True', '[]', 'a, b', "a': 'b", "a', 'b", "x'###q='y", '$$$']
DICT_KEYS = ['a', 'b']


def json_values(atoms, depth, width, dict_keys=DICT_KEYS):
    """all JSON-like values over `atoms` closed under lists (length <= width) and string-keyed dicts (<= width keys from
    dict_keys) nested to `depth` (depth 0 = atoms only). Deterministic order, simplest first, no duplicates by repr/type."""
    level = list(atoms)
    allv = list(level)
    seen = {_k(v) for v in allv}
    for _ in range(depth):
        new = []
        pool = list(allv)
        for n in range(0, width + 1):
            for combo in product(pool, repeat=n):
                v = list(combo)
                k = _k(v)
                if k not in seen:
                    seen.add(k)
                    new.append(v)
        for n in range(0, width + 1):
            for keys in _key_sets(dict_keys, n):
                for combo in product(pool, repeat=n):
                    v = dict(zip(keys, combo))
                    k = _k(v)
                    if k not in seen:
                        seen.add(k)
                        new.append(v)
        allv += new
    return allv


def _key_sets(keys, n):
    from itertools import combinations
    return list(combinations(keys, n))


def _k(v):
    if isinstance(v, list):
        return ('l', tuple(_k(x) for x in v))
    if isinstance(v, dict):
        return ('d', tuple((k, _k(x)) for k, x in sorted(v.items())))
    return (type(v).__name__, repr(v))


def strings(alphabet, max_len):
    yield ''
    for n in range(1, max_len + 1):
        for t in product(alphabet, repeat=n):
            yield ''.join(t)
