import argparse
import importlib
import json
import os
import sys
import time
import traceback

from tcv import VERIF_DIR

OUT_DIR = os.environ.get('TCV_OUT') or VERIF_DIR  # mutant runs write evidence/replays elsewhere
from tcv.core import HarnessError, Result, digest, jdump

LEVEL = 'model_checking'


def _reexec_with_hashseed():
    # fixed hash seed in every process the harness starts (DESIGN 5.2); C02 varies it deliberately in sub-workers
    if os.environ.get('PYTHONHASHSEED') is None:
        env = dict(os.environ, PYTHONHASHSEED='0')
        os.execve(sys.executable, [sys.executable, '-m', 'tcv'] + sys.argv[1:], env)


def _module(pid):
    return importlib.import_module(f'tcv.checks.{pid.lower()}')


def write_evidence(pid, tier, seed, res: Result, wall, n_viol):
    cov = dict(res.coverage)
    cov.setdefault('samples', [])
    if not cov['samples']:
        cov['samples'] = ['<none recorded>']
    # both key families (DESIGN 3, cross-cutting); all counts are measured by the check
    for k in ('states', 'transitions', 'traces_validated_against_impl', 'evaluations', 'distinct_nontrivial'):
        cov.setdefault(k, 0)
    cov.setdefault('exhaustive', False)
    ev = {
        'property_id': pid,
        'tier': tier,
        'seed': seed,
        'level': LEVEL,
        'coverage': json.loads(jdump(cov)),
        'assumptions': res.assumptions,
        'wall_s': round(wall, 3),
        'violations': n_viol,
    }
    os.makedirs(os.path.join(OUT_DIR, 'evidence'), exist_ok=True)
    path = os.path.join(OUT_DIR, 'evidence', f'{pid}.json')
    tmp = path + '.tmp'
    with open(tmp, 'w') as f:
        json.dump(ev, f, indent=1, sort_keys=True)
        f.write('\n')
    os.replace(tmp, path)
    return path


def cmd_check(args):
    from tcv import findings

    pid = args.property.upper()
    tier = args.tier or os.environ.get('VERIF_TIER') or 'quick'
    seed = int(os.environ.get('VERIF_SEED', '0') or 0)
    os.environ['VERIF_TIER'] = tier
    t0 = time.time()
    mod = _module(pid)
    try:
        res = mod.run(tier, seed)
    except HarnessError as e:
        print(f'HARNESS-ERROR property={pid}\n{e}', file=sys.stderr)
        return 2
    except Exception:
        print(f'HARNESS-ERROR property={pid}\n{traceback.format_exc()}', file=sys.stderr)
        return 2
    wall = time.time() - t0
    known = findings.load(pid)
    hit = {}
    unknown = []
    for v in res.violations:
        e = findings.match(known, v.signature)
        if e is not None:
            hit.setdefault(e['id'], [e, 0, v])
            hit[e['id']][1] += 1
        else:
            unknown.append(v)
    res.coverage['known_finding_instances'] = {k: n for k, (e, n, v) in hit.items()}
    for k, (e, n, v) in sorted(hit.items()):
        print(f'KNOWN-FINDING: property={pid} {e["id"]} {e["what"]} [{n} instance(s) in this run; e.g. {v.what[:200]}]')
    # one replay file per distinct signature (first = simplest), all counted
    seen = {}
    for v in unknown:
        seen.setdefault(v.signature, []).append(v)
    rdir = os.path.join(OUT_DIR, 'replays', pid)
    for sig, vs in seen.items():
        v = vs[0]
        os.makedirs(rdir, exist_ok=True)
        path = os.path.join(rdir, f'{digest([sig, v.case])}.json')
        with open(path, 'w') as f:
            json.dump({'property': pid, 'signature': sig, 'what': v.what, 'case': json.loads(jdump(v.case)),
                       'instances': len(vs)}, f, indent=1)
        print(f'VIOLATION property={pid} replay={path}')
        print(f'  signature: {sig}\n  what: {v.what[:1500]}\n  instances: {len(vs)}')
    write_evidence(pid, tier, seed, res, wall, len(unknown))
    if res.harness_errors:
        for h in res.harness_errors[:10]:
            print(f'HARNESS-ERROR property={pid} {h}', file=sys.stderr)
        return 2
    cov = res.coverage
    print(f'{pid} tier={tier} seed={seed} wall={wall:.1f}s states={cov.get("states")} transitions={cov.get("transitions")} '
          f'evaluations={cov.get("evaluations")} exhaustive={cov.get("exhaustive")} violations={len(unknown)} known={sum(n for _, n, _ in hit.values())}')
    return 1 if unknown else 0


def cmd_replay(args):
    from tcv import findings

    data = json.load(open(args.path))
    pid = data['property']
    mod = _module(pid)
    known = findings.load(pid)
    outs = []
    for i in range(2):
        try:
            vs = mod.replay(data['case'])
        except HarnessError as e:
            if 'divergence' in str(e) or 'out of range' in str(e):
                # a schedule / history recorded on another tree need not be realisable on this one
                print(f'replay of {args.path}: the recorded schedule is not realisable on this tree ({str(e)[:120]}); nothing to report')
                return 0
            raise
        outs.append([(v.signature, v.what) for v in vs])
    if outs[0] != outs[1]:
        print(f'HARNESS-ERROR replay not deterministic: {outs}', file=sys.stderr)
        return 2
    unknown = [(s, w) for s, w in outs[0] if findings.match(known, s) is None]
    for s, w in outs[0]:
        e = findings.match(known, s)
        if e is not None:
            print(f'KNOWN-FINDING: property={pid} {e["id"]} {e["what"][:200]}')
    if unknown:
        for sig, what in unknown:
            print(f'VIOLATION property={pid} replay={args.path}\n  signature: {sig}\n  what: {what[:2000]}')
        return 1
    print(f'replay of {args.path}: property held')
    return 0


def cmd_selftest(args):
    from tcv import selftest

    return selftest.main()


def main(argv=None):
    _reexec_with_hashseed()
    ap = argparse.ArgumentParser(prog='tcv')
    sub = ap.add_subparsers(dest='cmd', required=True)
    c = sub.add_parser('check')
    c.add_argument('property')
    c.add_argument('--tier', choices=['quick', 'thorough'])
    c.set_defaults(fn=cmd_check)
    r = sub.add_parser('replay')
    r.add_argument('path')
    r.set_defaults(fn=cmd_replay)
    s = sub.add_parser('selftest')
    s.set_defaults(fn=cmd_selftest)
    args = ap.parse_args(argv)
    return args.fn(args)
