"""E4b - completion-order controller for the real thread-pool based parallel_map implementations.

The mapped function blocks on a per-call gate. A controller thread waits until the pool has as many calls in flight
as it can have, picks which in-flight call completes next (the choice), opens its gate and waits until the library has
*consumed* that completion (observed through a proxy of `asyncio.as_completed` bound into the library module) before
choosing again. All choice sequences are enumerated depth-first by the caller.
"""
import asyncio
import threading
import types

from tcv.core import HarnessError

WAIT = 20.0


class Raise(Exception):
    pass


class Controller:
    def __init__(self, choices, capacity_fn):
        self.choices = list(choices)  # prefix of choice indices; beyond it choice 0
        self.capacity_fn = capacity_fn  # (n_started, n_released) -> how many calls must be in flight before choosing
        self.cv = threading.Condition()
        self.started = []  # call ids in start order
        self.gates = {}
        self.released = []
        self.consumed = 0
        self.points = []  # (n_alternatives, chosen index)
        self.calls = []  # args seen by f
        self.drain = False
        self.done = False
        self.error = None

    # --- called from pool worker threads
    def enter(self, arg):
        with self.cv:
            cid = len(self.started)
            self.started.append(cid)
            self.calls.append(arg)
            g = self.gates[cid] = threading.Event()
            if self.drain:
                g.set()
            self.cv.notify_all()
        if not g.wait(WAIT):
            raise HarnessError('gate never opened')
        return cid

    # --- called from the library's event loop (main thread)
    def on_consumed(self):
        with self.cv:
            self.consumed += 1
            self.cv.notify_all()

    def on_failed(self):
        with self.cv:
            self.drain = True
            for g in self.gates.values():
                g.set()
            self.cv.notify_all()

    def finish(self):
        with self.cv:
            self.done = True
            self.drain = True
            for g in self.gates.values():
                g.set()
            self.cv.notify_all()

    # --- controller thread
    def loop(self):
        try:
            while True:
                with self.cv:
                    ok = self.cv.wait_for(lambda: self.done or self.drain or (
                        self.consumed >= len(self.released)
                        and len(self.started) - len(self.released) >= max(1, self.capacity_fn(len(self.started), len(self.released)))), WAIT)
                    if self.done or self.drain:
                        return
                    if not ok:
                        # nothing in flight any more and nothing will start: the call is finishing
                        if len(self.started) == len(self.released):
                            continue
                        raise HarnessError(f'controller stuck: started={self.started} released={self.released} consumed={self.consumed}')
                    inflight = [c for c in self.started if c not in self.released]
                    i = len(self.points)
                    ch = self.choices[i] if i < len(self.choices) else 0
                    if ch >= len(inflight):
                        raise HarnessError(f'choice {ch} out of range at point {i}: inflight={inflight} (divergence while replaying prefix)')
                    self.points.append((len(inflight), ch))
                    cid = inflight[ch]
                    self.released.append(cid)
                    self.gates[cid].set()
        except BaseException as e:  # noqa
            self.error = e
            self.on_failed()


def asyncio_proxy(ctrl_ref):
    """Module-like object identical to asyncio except that as_completed reports each consumed completion."""
    proxy = types.ModuleType('asyncio_proxy')
    proxy.__dict__.update(asyncio.__dict__)

    def as_completed(fs, *a, **k):
        for coro in asyncio.as_completed(fs, *a, **k):
            yield _wrap(coro)

    async def _wrap(coro):
        try:
            r = await coro
        except BaseException:
            c = ctrl_ref[0]
            if c is not None:
                c.on_failed()
            raise
        c = ctrl_ref[0]
        if c is not None:
            c.on_consumed()
        return r

    proxy.as_completed = as_completed
    return proxy


class Harness:
    """Binds the proxy into one library module and runs controlled executions of its parallel_map."""

    def __init__(self, module):
        self.module = module
        self.ref = [None]
        module.asyncio = asyncio_proxy(self.ref)

    def execute(self, call, choices, capacity_fn, raise_at=None):
        """call(f) invokes the library function with mapped function f. Returns dict(result|exc, points, calls, released)."""
        ctrl = Controller(choices, capacity_fn)
        self.ref[0] = ctrl

        def f(x):
            ctrl.enter(x)
            if raise_at is not None and x == raise_at:
                raise Raise(x)
            return ('r', x)

        th = threading.Thread(target=ctrl.loop, daemon=True)
        th.start()
        out = {}
        try:
            out['result'] = call(f)
        except Raise as e:
            out['exc'] = ('Raise', e.args[0])
        except HarnessError:
            raise
        except BaseException as e:  # noqa
            out['exc'] = (type(e).__name__, str(e))
        finally:
            ctrl.finish()
            th.join(WAIT)
            self.ref[0] = None
        if ctrl.error is not None:
            raise HarnessError(f'controller error: {ctrl.error!r}')
        out['points'] = ctrl.points
        out['calls'] = list(ctrl.calls)
        out['released'] = list(ctrl.released)
        return out


def explore(execute_with_choices, max_runs=None):
    """Stateless DFS over all choice sequences. execute_with_choices(prefix) -> out (with out['points']).
    Yields every out. Enumeration is complete (every alternative at every point of every execution)."""
    stack = [[]]
    n = 0
    while stack:
        prefix = stack.pop()
        out = execute_with_choices(prefix)
        n += 1
        pts = out['points']
        if out.get('exc') and out['exc'][0] != 'Raise' and len(pts) < len(prefix):
            # the library call itself failed before the prefix could be replayed: that is an observation to judge
            # (the caller reports it), not a divergence of the harness
            yield prefix, out
            continue
        # replayed prefix must have been honoured
        for i, ch in enumerate(prefix):
            if i >= len(pts) or pts[i][1] != ch:
                raise HarnessError(f'divergence replaying prefix {prefix}: points={pts}')
        yield prefix, out
        for i in range(len(pts) - 1, len(prefix) - 1, -1):
            nalt = pts[i][0]
            base = [p[1] for p in pts[:i]]
            for alt in range(nalt - 1, 0, -1):
                stack.append(base + [alt])
        if max_runs and n >= max_runs:
            return
