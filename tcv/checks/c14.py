"""C14 - file caches return the value for the key, or recompute.

H: explicit-state BFS over operation histories {get, get_or_compute, forced, raising computer} x {cache instance, second
instance over the same directory, sub-cache} x keys x values, interleaved with damage operations on the cache files
{delete, empty, garbage, valid file of another shape, file recorded for another key}; states are merged on the bytes of the
cache directory; a dictionary model runs in lock step.
K: for every stored value of every cache type, EVERY proper byte prefix of its file (an interrupted write) must be treated
as absent: get -> NO_VALUE, get_or_compute computes exactly once and repairs the entry.
X: every key of a unicode key menu x every value of each type's domain round-trips type-strictly.
"""
import hashlib
import itertools
import copy
import os
import shutil

import numpy as np
import pandas as pd

from tcv import scratch
from tcv.core import HarnessError, Result, Violation, digest
from tcv.pool import pmap

KEYS = ['k', 'k2', '', 'é/☃ \n', 'K' * 300, '../x', 'a"b\\c', '\x00',
        'caf\u00e9', 'cafe\u0301', 'K', 'k ', ' k', 'ﬁ', 'fi',
        '\u0161\u00edp', '\u010d\u00edp', '?\u00edp']   # ... and keys that differ only in a non-ASCII letter / have `?` in its place   # distinct strings that normalisation / case folding / stripping would identify
NOV = '<NO_VALUE>'


def domain(ctype):
    if ctype == 'json' or ctype == 'json_nonone':
        return [0, '', None, [], {'a': [1, {'b': None}]}, 'v2', 1.5, True, {'': 0}, 'é☃', 2 ** 53 + 1]
    if ctype == 'numpy':
        return [np.arange(3, dtype=np.int64), np.array([1.5, -0.0]), np.array(['a', 'bc']), np.array(7), np.zeros((0,), dtype=np.float32), np.zeros((2, 0)),
                np.array(['cat', None], dtype=object), np.array([[1, 2], [3, 4]], dtype=np.uint8)]
    if ctype == 'frame':
        return [pd.DataFrame({'a': [1, 2], 'b': ['x', 'y']}), pd.DataFrame(), pd.DataFrame({'a': []}), pd.DataFrame({'f': [1.5]}, index=['r'])]
    raise ValueError(ctype)


def make_cache(ctype, d):
    from taskchain.cache import DataFrameCache, JsonCache, NumpyArrayCache

    if ctype == 'json':
        return JsonCache(d)
    if ctype == 'json_nonone':
        return JsonCache(d, allow_nones=False)
    if ctype == 'numpy':
        return NumpyArrayCache(d)
    return DataFrameCache(d)


def same(a, b):
    if a is NOV or b is NOV or isinstance(a, str) and a == NOV or isinstance(b, str) and b == NOV:
        return (isinstance(a, str) and a == NOV) and (isinstance(b, str) and b == NOV)
    if isinstance(a, np.ndarray) or isinstance(b, np.ndarray):
        if not (isinstance(a, np.ndarray) and isinstance(b, np.ndarray)):
            return False
        if a.dtype != b.dtype or a.shape != b.shape:
            return False
        if a.dtype == object:
            return a.tolist() == b.tolist()
        return a.tobytes() == b.tobytes()
    if isinstance(a, pd.DataFrame) or isinstance(b, pd.DataFrame):
        if not (isinstance(a, pd.DataFrame) and isinstance(b, pd.DataFrame)):
            return False
        try:
            pd.testing.assert_frame_equal(a, b, check_exact=True)
            return True
        except AssertionError:
            return False
    return _strict(a, b)


def _strict(a, b):
    if type(a) is not type(b):
        return False
    if isinstance(a, list):
        return len(a) == len(b) and all(_strict(x, y) for x, y in zip(a, b))
    if isinstance(a, dict):
        return set(a) == set(b) and all(_strict(a[k], b[k]) for k in a)
    if isinstance(a, float):
        return repr(a) == repr(b)
    return a == b


# ------------------------------------------------------------------------------------------------ histories
class Boom(Exception):
    pass


def alphabet(ctype, quick):
    keys = ['k', 'k2']
    vals = [0, 1]  # indices into the value menu of the type
    caches = ['main', 'second', 'sub']
    if ctype == 'json_nonone':
        caches = ['main', 'second']  # sub-caches are created with default options; `allow_nones` is not part of the statement
    ops = []
    for c in caches:
        for k in keys:
            ops.append(('get', c, k))
            for v in vals:
                ops.append(('goc', c, k, v))
                ops.append(('force', c, k, v))
            ops.append(('raise', c, k))
            ops.append(('force_raise', c, k))
    for k in keys:
        for how in ('delete', 'empty', 'garbage', 'othershape', 'otherkey'):
            ops.append(('damage', 'main', k, how))
    if 'sub' in caches:
        ops.append(('damage', 'sub', 'k', 'empty'))
    return ops


def value_menu(ctype):
    d = domain(ctype)
    if ctype == 'json_nonone':
        return [None, 'v2']
    return [d[0], d[-1] if ctype != 'json' else None]


class Sim:
    """real caches on a scratch dir + dictionary model"""

    def __init__(self, ctype):
        self.ctype = ctype
        self.dir = scratch.fresh('c14')
        self.caches = {}
        self.model = {}  # (dirname, key) -> ('ok', value) | ('damaged',) | ('foreign',)
        self.calls = 0
        self.menu = value_menu(ctype)

    def cache(self, name):
        if name not in self.caches:
            if name == 'sub':
                self.caches[name] = self.cache('main').subcache('s')
            else:
                self.caches[name] = make_cache(self.ctype, self.dir)
        return self.caches[name]

    def where(self, name):
        return 'sub' if name == 'sub' else 'main'

    def close(self):
        scratch.drop(self.dir)

    def apply(self, op):
        """-> (observed, expected) each (result-kind, value, computer-calls)"""
        from taskchain.cache import NO_VALUE, CacheException

        kind = op[0]
        c = self.cache(op[1])
        slot = (self.where(op[1]), op[2])
        st = self.model.get(slot)
        if kind == 'damage':
            path = c.filepath(op[2])
            how = op[3]
            if how == 'delete':
                if path.exists():
                    path.unlink()
                self.model.pop(slot, None)
            else:
                data = {'empty': b'', 'garbage': b'\x00\xffnot a cache file{', 'othershape': self._othershape(), 'otherkey': self._otherkey()}[how]
                path.write_bytes(data)
                self.model[slot] = ('foreign',) if (how == 'otherkey' and self.ctype.startswith('json')) else (('damaged',) if how != 'otherkey' else ('ok_foreign_payload',))
                if how == 'otherkey' and not self.ctype.startswith('json'):
                    # numpy / frame files carry no key: a file copied from another key is simply that key's value
                    self.model[slot] = ('ok', self.menu[1])
                if how == 'othershape' and not self.ctype.startswith('json'):
                    self.model[slot] = ('damaged',)
            return ('done', None, 0), ('done', None, 0)
        calls = [0]
        v = self.menu[op[3]] if kind in ('goc', 'force') else None

        def computer():
            calls[0] += 1
            if kind in ('raise', 'force_raise'):
                raise Boom()
            return v
        force = kind in ('force', 'force_raise')
        # ---- expectation
        nonone = self.ctype == 'json_nonone'
        if kind == 'get':
            if st is None or st[0] == 'damaged':
                exp = ('value', NOV, 0)
            elif st[0] == 'foreign':
                exp = ('CacheException', None, 0)
            else:
                exp = ('value', st[1], 0)
        else:
            if st is not None and st[0] == 'foreign' and not force:
                exp = ('CacheException', None, 0)
            elif st is not None and st[0] == 'ok' and not force:
                exp = ('value', st[1], 0)
            else:
                if kind in ('raise', 'force_raise'):
                    exp = ('Boom', None, 1)
                elif nonone and v is None:
                    exp = ('CacheException', None, 1)
                else:
                    exp = ('value', v, 1)
                    self.model[slot] = ('ok', v)
        # ---- real
        try:
            if kind == 'get':
                r = c.get(op[2])
            else:
                r = c.get_or_compute(op[2], computer, force=force)
            obs = ('value', NOV if r is NO_VALUE else r, calls[0])
        except Boom:
            obs = ('Boom', None, calls[0])
        except CacheException:
            obs = ('CacheException', None, calls[0])
        except Exception as e:  # noqa
            obs = (f'{type(e).__name__}: {e}', None, calls[0])
        return obs, exp

    def _othershape(self):
        if self.ctype.startswith('json'):
            return b'[1, 2]'
        # (a pickle in place of an .npy file is NOT damage: np.load(allow_pickle=True) legitimately reads pickles)
        return b'{"key": "k", "value": 1}'

    def _otherkey(self):
        if self.ctype.startswith('json'):
            return b'{"key": "another key", "value": "foreign"}'
        import io
        b = io.BytesIO()
        if self.ctype == 'numpy':
            np.save(b, self.menu[1])
        else:
            self.menu[1].to_pickle(b)
        return b.getvalue()

    def canon(self):
        files = []
        for root, ds, fs in os.walk(self.dir):
            ds.sort()
            for f in sorted(fs):
                if f.endswith('.lock'):
                    continue
                p = os.path.join(root, f)
                files.append((os.path.relpath(p, self.dir), hashlib.sha1(open(p, 'rb').read()).hexdigest()[:12]))
        return digest(files)


def run_hist(ctype, hist):
    sim = Sim(ctype)
    out = []
    try:
        for i, op in enumerate(hist):
            obs, exp = sim.apply(tuple(op))
            ok = obs[0] == exp[0] and obs[2] == exp[2] and (obs[0] != 'value' or same(obs[1], exp[1]))
            if not ok:
                kind = _classify(op, obs, exp)
                out.append(Violation(f'{ctype} cache: {kind}',
                                     f'history {[list(o) for o in hist[:i + 1]]} (values {[_show(v) for v in sim.menu]}): {op} gave {(_show(obs[1]) if obs[0] == "value" else obs[0])} with {obs[2]} computer call(s); '
                                     f'dictionary model: {(_show(exp[1]) if exp[0] == "value" else exp[0])} with {exp[2]} call(s)',
                                     {'kind': 'hist', 'ctype': ctype, 'hist': [list(o) for o in hist[:i + 1]]}))
                break
        c = sim.canon()
        m = digest(sorted((str(k), v[0], _show(v[1]) if len(v) > 1 else '') for k, v in sim.model.items()))
    finally:
        sim.close()
    return out, c, m


def _show(v):
    if isinstance(v, np.ndarray):
        return f'ndarray({v.dtype},{v.shape},{v.tolist()})'
    if isinstance(v, pd.DataFrame):
        return f'DataFrame({v.to_dict()})'
    return repr(v)


def _classify(op, obs, exp):
    if obs[0] not in ('value', 'Boom', 'CacheException') and exp[0] == 'value':
        return f'{op[0]} raised instead of recomputing/answering'
    if exp[0] == 'CacheException' and obs[0] != 'CacheException':
        return 'file recorded for another key / refused value not reported'
    if obs[0] == 'value' and exp[0] == 'value' and not same(obs[1], exp[1]):
        return f'{op[0]} returned a wrong value'
    if obs[2] != exp[2]:
        return f'{op[0]} called the computer {obs[2]} time(s), expected {exp[2]}'
    return f'{op[0]} outcome {obs[0]} vs {exp[0]}'


def _expand(args):
    import tcv

    tcv.quiet_library()
    ctype, hists, quick = args
    out = []
    ops = alphabet(ctype, quick)
    for h in hists:
        for op in ops:
            h2 = h + [list(op)]
            vs, c, m = run_hist(ctype, h2)
            out.append((h2, c, m, [v.to_json() for v in vs]))
    return out


def explore(ctype, depth, quick, seed):
    from tcv.pool import NPROC

    res = Result()
    frontier = [[]]
    seen = {}
    for d in range(1, depth + 1):
        if not frontier:
            break
        n = max(1, min(len(frontier), NPROC * 2))
        k = seed % len(frontier)
        frontier = frontier[k:] + frontier[:k]
        outs = pmap(_expand, [(ctype, frontier[i::n], quick) for i in range(n)])
        nxt = []
        for out in outs:
            for h2, c, m, vs in out:
                res.add('transitions', len(h2))
                res.add('evaluations')
                for v in vs:
                    res.violations.append(Violation(v['signature'], v['what'], v['case']))
                if c in seen:
                    if seen[c][0] != m and not vs:
                        # the bytes of the cache directory determine every entry (value or damage class); two histories that
                        # leave the same bytes but different dictionary models mean an operation wrote somewhere else than
                        # under its own (cache, key) - or left an entry in a state its history does not explain
                        res.violations.append(Violation(f'{ctype} cache: directory content does not correspond to the operations performed (entry written under another cache/key or not replaced)',
                                                        f'history {h2} leaves the same directory bytes as {seen[c][1]} although the dictionary models differ',
                                                        {'kind': 'hist', 'ctype': ctype, 'hist': h2}))
                    continue
                seen[c] = (m, h2)
                if not vs:
                    nxt.append(h2)
        nxt.sort(key=repr)
        frontier = nxt
        if len(res.violations) > 50:
            break
    res.coverage['states'] = len(seen)
    res.coverage['frontier_left'] = len(frontier)
    return res


# ------------------------------------------------------------------------------------------------ prefixes and keys
def _prefix_job(args):
    import tcv

    tcv.quiet_library()
    from taskchain.cache import NO_VALUE, CacheException

    ctype, vi = args
    res = Result()
    vals = domain(ctype)
    v = vals[vi]
    if ctype == 'json_nonone' and v is None:
        return res
    d = scratch.fresh('c14p')
    try:
        c = make_cache(ctype, d)
        key = 'the key'
        c.get_or_compute(key, lambda: v)
        path = c.filepath(key)
        full = path.read_bytes()
        new = vals[(vi + 1) % len(vals)] if not (ctype == 'json_nonone' and vals[(vi + 1) % len(vals)] is None) else 'other'
        for n in range(len(full)):
            case = {'kind': 'prefix', 'ctype': ctype, 'value': vi, 'n': n}
            path.write_bytes(full[:n])
            res.add('evaluations')
            res.add('transitions', 3)
            res.add('distinct_nontrivial')
            try:
                g = make_cache(ctype, d).get(key)
            except Exception as e:  # noqa
                res.violations.append(Violation(f'{ctype} cache: get raises on a truncated file', f'value {_show(v)}, file cut to {n}/{len(full)} bytes: {type(e).__name__}: {e}', case))
                continue
            if g is not NO_VALUE:
                res.violations.append(Violation(f'{ctype} cache: truncated file returned as a value', f'value {_show(v)}, file cut to {n}/{len(full)} bytes: get -> {_show(g)}', case))
                continue
            calls = [0]

            def comp():
                calls[0] += 1
                return new
            try:
                r = make_cache(ctype, d).get_or_compute(key, comp)
            except Exception as e:  # noqa
                res.violations.append(Violation(f'{ctype} cache: get_or_compute raises on a truncated file instead of recomputing',
                                                f'value {_show(v)}, file cut to {n}/{len(full)} bytes: {type(e).__name__}: {e}', case))
                continue
            after = make_cache(ctype, d).get(key)
            if calls[0] != 1 or not same(r, new) or not same(after, new):
                res.violations.append(Violation(f'{ctype} cache: truncated file not repaired by recomputation',
                                                f'value {_show(v)}, cut {n}/{len(full)}: computer calls {calls[0]}, returned {_show(r)}, afterwards get -> {_show(after) if after is not NO_VALUE else NOV}', case))
        res.add('states', len(full))
    finally:
        scratch.drop(d)
    return res


def _keys_values_job(ctype):
    import tcv

    tcv.quiet_library()
    from taskchain.cache import NO_VALUE

    res = Result()
    d = scratch.fresh('c14k')
    try:
        vals = domain(ctype)
        c = make_cache(ctype, d)
        stored = {}
        for ki, key in enumerate(KEYS):
            for where in ('main', 'sub'):
                cc = c if where == 'main' else c.subcache('s')
                v = vals[(ki + (1 if where == 'sub' else 0)) % len(vals)]
                if ctype == 'json_nonone' and v is None:
                    v = 'x'
                calls = [0]

                def comp():
                    calls[0] += 1
                    return v
                case = {'kind': 'keys', 'ctype': ctype}
                res.add('evaluations')
                res.add('transitions', 3)
                try:
                    pre = cc.get(key)
                    r = cc.get_or_compute(key, comp)
                except Exception as e:  # noqa  (e.g. "key does not match": the entry of ANOTHER key was found for this one)
                    res.violations.append(Violation(f'{ctype} cache: keys / sub-caches share entries', f'key {key!r} in {where}, never stored before: {type(e).__name__}: {e}', case))
                    continue
                if pre is not NO_VALUE or calls[0] != 1 or not same(r, v):
                    res.violations.append(Violation(f'{ctype} cache: keys / sub-caches share entries', f'key {key!r} in {where}: before {pre!r}, calls {calls[0]}, returned {_show(r)} expected {_show(v)}', case))
                stored[(where, key)] = v
        # everything still there, type-strict, from fresh instances, without computing
        c2 = make_cache(ctype, d)
        for (where, key), v in stored.items():
            cc = c2 if where == 'main' else c2.subcache('s')
            n = [0]

            def recomputed():
                n[0] += 1
                return v
            try:
                g = cc.get(key)
                r = cc.get_or_compute(key, recomputed)
            except Exception as e:  # noqa
                res.violations.append(Violation(f'{ctype} cache: stored value does not round-trip', f'key {key!r} in {where}: {type(e).__name__}: {e}', {'kind': 'keys', 'ctype': ctype}))
                continue
            res.add('evaluations')
            res.add('distinct_nontrivial')
            if n[0]:
                res.violations.append(Violation(f'{ctype} cache: intact stored value recomputed', f'key {key!r} in {where}: stored {_show(v)}, get -> {_show(g) if g is not NO_VALUE else NOV}, '
                                                f'get_or_compute called the computer {n[0]} time(s)', {'kind': 'keys', 'ctype': ctype}))
            elif not same(g, v) or not same(r, v):
                res.violations.append(Violation(f'{ctype} cache: stored value does not round-trip', f'key {key!r} in {where}: stored {_show(v)}, get -> {_show(g)}, get_or_compute -> {_show(r)}', {'kind': 'keys', 'ctype': ctype}))
        # a returned value is the caller's: changing it in place changes neither what the cache returns next (same instance, a
        # new instance) nor what a sibling sub-cache holding an equal value under the same key returns
        if ctype in ('json', 'json_nonone'):
            orig = {'a': [1, {'k': [2]}], 'b': 'x'}
            cj = make_cache(ctype, d)
            s1, s2 = cj.subcache('mut1'), cj.subcache('mut2')
            for c_ in (cj, s1, s2):
                c_.get_or_compute('mut', lambda: copy.deepcopy(orig))
            for reader, others in ((cj, (cj, make_cache(ctype, d))), (s1, (s1, s2, cj.subcache('mut2')))):
                got = reader.get('mut')
                got['a'].append('POLLUTED')
                got['a'][1]['k'].clear()
                got['new'] = 1
                for o in others:
                    res.add('evaluations', 2)
                    for how, val in (('get', o.get('mut')), ('get_or_compute', o.get_or_compute('mut', lambda: 'recomputed'))):
                        if val != orig:
                            res.violations.append(Violation(f'{ctype} cache: a value changed in place by its receiver is served to later readers', f'{how} -> {_show(val)}, stored {_show(orig)}',
                                                            {'kind': 'keys', 'ctype': ctype}))
        # a returned value is the caller's: a later forced write of the entry must not change it (also for large arrays)
        if ctype == 'numpy':
            big1 = np.arange(1_200_000, dtype=np.float64)          # > 8 MiB on disk
            big2 = big1[::-1].copy()
            cb = make_cache(ctype, d)
            cb.get_or_compute('big', lambda: big1)
            held = make_cache(ctype, d).get('big')
            held2 = make_cache(ctype, d).get_or_compute('big', lambda: big2)
            make_cache(ctype, d).get_or_compute('big', lambda: big2, force=True)
            res.add('evaluations', 3)
            if not same(held, big1) or not same(held2, big1):
                res.violations.append(Violation(f'{ctype} cache: a value returned earlier changed when the entry was rewritten', 'array of 1.2e6 float64: value held by a reader differs after a forced write',
                                                {'kind': 'keys', 'ctype': ctype}))
            if not same(make_cache(ctype, d).get('big'), big2):
                res.violations.append(Violation(f'{ctype} cache: stored value does not round-trip', 'large array after forced rewrite', {'kind': 'keys', 'ctype': ctype}))
            # a large entry that is not a plain numeric block (an object array holding a 9 MiB string): stored once, served from the file afterwards
            calls = []

            def big_obj():
                calls.append(1)
                return np.array(['x' * (9 * 2 ** 20), 'y'], dtype=object)
            make_cache(ctype, d).get_or_compute('bigobj', big_obj)
            v2 = make_cache(ctype, d).get_or_compute('bigobj', big_obj)
            g2 = make_cache(ctype, d).get('bigobj')
            res.add('evaluations', 3)
            if len(calls) != 1 or g2 is NO_VALUE:
                res.violations.append(Violation(f'{ctype} cache: intact stored value recomputed', f'object array with a 9 MiB string: computer called {len(calls)} time(s), get -> {"NO_VALUE" if g2 is NO_VALUE else "value"}',
                                                {'kind': 'keys', 'ctype': ctype}))
            elif not (v2.dtype == object and v2.shape == (2,) and v2[1] == 'y' and len(v2[0]) == 9 * 2 ** 20):
                res.violations.append(Violation(f'{ctype} cache: stored value does not round-trip', 'object array with a 9 MiB string', {'kind': 'keys', 'ctype': ctype}))
        # every value of the domain
        for vi, v in enumerate(vals):
            if ctype == 'json_nonone' and v is None:
                continue
            key = f'value-{vi}'
            c.get_or_compute(key, lambda: v)
            g = make_cache(ctype, d).get(key)
            res.add('evaluations')
            if not same(g, v):
                res.violations.append(Violation(f'{ctype} cache: stored value does not round-trip', f'value {_show(v)} -> {_show(g)}', {'kind': 'keys', 'ctype': ctype}))
    finally:
        scratch.drop(d)
    return res


def run(tier, seed):
    res = Result()
    depths = {'json': 4, 'json_nonone': 3, 'numpy': 3, 'frame': 3} if tier == 'quick' else {'json': 6, 'json_nonone': 4, 'numpy': 5, 'frame': 4}
    for ctype, depth in depths.items():
        r = explore(ctype, depth, tier == 'quick', seed)
        res.coverage.setdefault('per_type', {})[ctype] = dict(states=r.coverage['states'], transitions=r.coverage['transitions'], histories=r.coverage['evaluations'], depth=depth,
                                                              frontier_left=r.coverage['frontier_left'])
        res.add('states', r.coverage['states'])
        res.add('transitions', r.coverage['transitions'])
        res.add('evaluations', r.coverage['evaluations'])
        res.add('distinct_nontrivial', r.coverage['states'])
        res.violations.extend(r.violations)
    jobs = [(ct, vi) for ct in ('json', 'json_nonone', 'numpy', 'frame') for vi in range(len(domain(ct)))]
    for r in pmap(_prefix_job, jobs):
        res.merge(r)
    for r in pmap(_keys_values_job, ['json', 'json_nonone', 'numpy', 'frame']):
        res.merge(r)
    res.coverage['traces_validated_against_impl'] = res.coverage['evaluations']
    res.coverage['exhaustive'] = True
    res.coverage['rule'] = ('per cache type: BFS over histories of {get, get_or_compute, force, raising computer (forced or not)} x {instance, second instance, sub-cache} x 2 keys x 2 values + '
                            '{delete, empty, garbage, other-shape, other-key} damage, merged on directory bytes (soundness cross-checked against the model); every proper byte prefix of every stored '
                            'file; every key of a unicode key menu x main/sub cache; every value of each domain round-trips type-strictly')
    res.sample({'ctype': 'json', 'history': [['goc', 'main', 'k', 0], ['damage', 'main', 'k', 'otherkey'], ['get', 'second', 'k']]})
    res.assumptions += ['a damaged entry is one the harness damaged; a value the serializer rejects is outside the statement', 'lone surrogates are not used in keys']
    return res


def replay(case):
    import tcv

    tcv.quiet_library()
    if case['kind'] == 'hist':
        vs, c, m = run_hist(case['ctype'], case['hist'])
        return vs
    if case['kind'] == 'prefix':
        r = _prefix_job((case['ctype'], case['value']))
        return [v for v in r.violations if v.case['n'] == case['n']]
    return _keys_values_job(case['ctype']).violations
