"""C05 - a result is visible only when complete (failure and crash atomicity).

K: for every storable data class x {first computation, forced recomputation over an existing result}: the real compute+
save path is recorded (every file-system mutation = one operation), then re-executed once per crash point - process death
immediately before each operation, and after every proper prefix (bounded for long payloads) of every write - and the
real recovery path (a new chain on the crash store) must either find nothing and recompute, or find the complete correct
value; requesting the value always recovers.
F: fault sequences (run raises at entry / after partial output, wrong type, unserialisable value, generator raising
after k items; up to two faults then success; retry in the same chain and in a new chain) with the same recovery oracle;
work directories of failed directory tasks are set aside, those of resumable tasks kept.
"""
import os
import itertools

from tcv import families, fsops, refmodel, scratch, worlds
from tcv.core import HarnessError, Result, Violation, digest
from tcv.pool import pmap

KINDS_Q = ['json', 'generator', 'generator_lazy', 'dir', 'continues', 'list_of_numpy']
KINDS_ALL = ['json', 'json_list', 'numpy', 'pandas', 'series', 'generator', 'generator_lazy', 'list_of_numpy', 'dir', 'continues']


def world(kind, style='registry'):
    P, bc = families.P, families.by_class
    return {
        'name': f'crash-{kind}-{style}',
        'tasks': {
            'U': {'params': [P('pu', default=3)], 'inputs': [], 'data': 'json', 'run': style},
            'T': {'params': [P('pt', default='v')], 'inputs': [bc('U')], 'data': kind, 'run': style},
        },
        'configs': {'root': {'medium': 'json', 'tasks': ['U', 'T'], 'values': {}}},
        'root': 'root',
        'variants': {'v0': []},
        '_shrinking': True,   # the value of a later attempt is shorter than that of an earlier one
    }


_W = {}


def get_world(kind, style='registry'):
    k = (kind, style)  # forked workers inherit the parent's worlds (same module name => byte-identical run info)
    if k not in _W:
        _W[k] = worlds.World(world(kind, style), scratch.fresh('c05w'))
    return _W[k]


class Scenario:
    """one execution: prepare store, run the target request under the interposer, hand the store to recovery"""

    def __init__(self, kind, forced, style='registry'):
        self.kind, self.forced = kind, forced
        self.w = get_world(kind, style)
        self.w.rt.reset()
        self.base = scratch.fresh('c05d')
        self.model = refmodel.Model(worlds.apply_variant(self.w.desc, 'v0'), self.w.modname)

    def close(self):
        scratch.drop(self.base)
        from tcv.histories import Exec
        Exec._detach_handlers(None)

    def prepare(self):
        ch = self.w.chain('v0', base_dir=self.base)
        _ = ch['u'].value
        if self.forced:
            _ = ch['t'].value
        ch2 = self.w.chain('v0', base_dir=self.base)
        if self.forced:
            ch2['t'].force()
        return ch2

    def target(self, ch, fs):
        """the request under test; returns 'ok' | 'crash' | exception text"""
        try:
            with fs:
                _ = ch['t'].value
            return 'ok'
        except fsops.Crash:
            return 'crash'
        except (worlds.Fault, worlds.Interrupt) as e:
            return f'fault: {e}'
        except Exception as e:  # noqa
            return f'{type(e).__name__}: {e}'

    def recover(self, label):
        """-> list of (kind, msg). Runs the real recovery path: new chain(s) on the store as it is now."""
        out = []
        # the dead process took its logging handlers with it
        from tcv.histories import Exec
        Exec._detach_handlers(None)
        w = self.w
        want = self.model.term('t')
        ch = w.chain('v0', base_dir=self.base)
        t = ch['t']
        try:
            had = bool(t.has_data)
        except Exception as e:  # noqa
            return [('has_data raises on the store left behind', f'{label}: {type(e).__name__}: {e}')]
        mark = len(w.rt.log)
        try:
            v = t.value
            p = w.decode(v, self.kind)
        except Exception as e:  # noqa
            if had:
                return [('partial / unreadable result reported as data; request fails', f'{label}: has_data was True, then value raised {type(e).__name__}: {str(e)[:200]}')]
            return [('value request does not recover', f'{label}: has_data was False, value raised {type(e).__name__}: {str(e)[:200]}')]
        ran = [r[0] for r in w.rt.log[mark:]]
        if p['term'] != want:
            out.append(('wrong or partial value served' + (' as stored data' if had else ''), f'{label}: has_data={had}, value decodes to {p["term"]}, expected {want}'))
        if had and 't' in ran:
            pass  # forced flags do not survive a new chain; a stored complete result must be loaded
        if had and 't' in ran:
            out.append(('stored result reported but recomputed', f'{label}: has_data True yet run executed {ran}'))
        # afterwards: stored, and a third chain loads it without running
        ch3 = w.chain('v0', base_dir=self.base)
        mark = len(w.rt.log)
        try:
            if not ch3['t'].has_data:
                out.append(('no stored result after a successful request', f'{label}'))
            p3 = w.decode(ch3['t'].value, self.kind)
            if p3['term'] != want or len(w.rt.log) != mark:
                out.append(('later chain does not load the recovered result', f'{label}: runs {[r[0] for r in w.rt.log[mark:]]}, term ok {p3["term"] == want}'))
        except Exception as e:  # noqa
            out.append(('later chain cannot load the recovered result', f'{label}: {type(e).__name__}: {str(e)[:200]}'))
        return out


def torn_points(n):
    if n <= 1:
        return []
    if n <= 64:
        return list(range(1, n))
    return sorted({1, n // 2, n - 1})


def _record(kind, forced, buffered=False):
    sc = Scenario(kind, forced)
    try:
        ch = sc.prepare()
        fs = fsops.FS(sc.base, snapshots=True, buffered=buffered)
        r = sc.target(ch, fs)
        if r != 'ok':
            raise HarnessError(f'recording run of {kind}/{forced} did not succeed: {r}')
        final = fsops.tree_digest(sc.base)
        bad = sc.recover('uncrashed run')
        if bad:
            raise HarnessError(f'recovery oracle fails on the uncrashed run of {kind}/{forced}: {bad}')
        return fs.ops, fs.snaps, final
    finally:
        sc.close()


def _crash_job(args):
    """all crash states of operations [lo, hi) of one scenario"""
    import tcv

    tcv.quiet_library()
    kind, forced, lo, hi, ops, snaps, buffered = args
    res = Result()
    for k in range(lo, hi):
        variants = [None]
        if ops[k][0] == 'write':
            variants += torn_points(ops[k][2])
        for torn in variants:
            sc = Scenario(kind, forced)
            try:
                ch = sc.prepare()
                fs = fsops.FS(sc.base, crash_at=k, torn=torn, buffered=buffered)
                r = sc.target(ch, fs)
                res.add('evaluations')
                res.add('transitions', k + 1)
                if r != 'crash':
                    res.harness_errors.append(f'{kind}/{forced}: crash at op {k} did not fire ({r}); ops diverged from the recording')
                    continue
                # payload lengths of the wall-clock fields of the run info vary between executions: compare (operation, path)
                if [list(o)[:2] for o in fs.ops[:k + 1]] != [list(o)[:2] for o in ops[:k + 1]]:
                    res.harness_errors.append(f'{kind}/{forced}: operation log diverges from the recording before op {k}')
                    continue
                if torn is None and fsops.tree_digest(sc.base) != snaps[k]:
                    res.harness_errors.append(f'{kind}/{forced}: tree after crash at op {k} {ops[k]} differs from the recorded pre-operation tree: some I/O bypasses the interposer')
                    continue
                opdesc = f'{ops[k][0]} {_short(ops[k][1])}' + (f' torn after {torn}/{ops[k][2]}' if torn else '')
                label = f'{kind}, {"forced recomputation" if forced else "first computation"}, {"buffered" if buffered else "write-through"} files, process dies before op {k} ({opdesc})'
                bad = sc.recover(label)
                if bad:
                    res.add('crash_states_violating')
                for kind_v, msg in bad:
                    res.violations.append(Violation(f'crash {kind}/{"forced" if forced else "first"}: {kind_v} [{_opclass(ops, k)}]', msg,
                                                    {'kind': 'crash', 'data': kind, 'forced': forced, 'k': k, 'torn': torn, 'buffered': buffered}))
            finally:
                sc.close()
    return res


def _short(rel):
    import re
    return re.sub(r'[0-9a-f]{32}', '<key>', str(rel))


def _opclass(ops, k):
    """which phase of the save protocol the crash point is in (part of the finding's signature)"""
    import re
    kind, rel, extra = ops[k]
    name = re.sub(r'[0-9a-f]{32}', 'KEY', str(rel)).split('/', 1)[-1]
    return f'{kind} {name}'


# 'interrupt': run ends with a KeyboardInterrupt (a failing run that is not an `Exception`)
FAULTS = {
    'json': ['raise', 'raise_late', 'wrong_type', 'unserialisable', 'interrupt'],
    'json_list': ['raise', 'wrong_type', 'unserialisable'],
    'numpy': ['raise', 'wrong_type', 'interrupt'], 'pandas': ['raise', 'wrong_type'], 'series': ['raise', 'wrong_type'],
    'generator': ['raise', 'gen_raise_0', 'gen_raise_1', 'unserialisable'],
    'generator_lazy': ['raise', 'gen_raise_0', 'gen_raise_1', 'unserialisable', 'interrupt'],
    'list_of_numpy': ['raise', 'wrong_type', 'unserialisable'],
    'dir': ['raise', 'raise_partial', 'wrong_type', 'interrupt'],
    'continues': ['raise', 'raise_partial', 'wrong_type', 'interrupt'],
}


def _fault_job(args):
    import tcv

    tcv.quiet_library()
    kind, forced, seq, same_chain = args
    res = Result()
    sc = Scenario(kind, forced)
    try:
        ch = sc.prepare()
        sc.w.rt.faults['T'] = list(seq)
        label = f'{kind}, {"forced" if forced else "first"}, faults {list(seq)}, retry in {"the same" if same_chain else "a new"} chain'
        case = {'kind': 'fault', 'data': kind, 'forced': forced, 'seq': list(seq), 'same_chain': same_chain}
        for i, f in enumerate(seq):
            res.add('transitions')
            try:
                _ = ch['t'].value
                res.violations.append(Violation(f'fault {kind}: failing run did not raise', f'{label}: attempt {i} ({f}) returned a value', case))
            except (Exception, worlds.Interrupt) as e:  # noqa
                pass
            # while failing: nothing visible (a forced recomputation may still show the OLD complete result)
            probe = sc.w.chain('v0', base_dir=sc.base)
            try:
                hd = probe['t'].has_data
                if hd:
                    p = sc.w.decode(probe['t'].value, kind)
                    if p['term'] != sc.model.term('t'):
                        raise ValueError('wrong term')
                    if not forced:
                        res.violations.append(Violation(f'fault {kind}: result visible after a failed first computation ({f})', f'{label}: has_data True after failing attempt {i}', case))
            except Exception as e:  # noqa
                res.violations.append(Violation(f'fault {kind}: partial / unreadable result visible after failure ({f})', f'{label}: after attempt {i}: {type(e).__name__}: {str(e)[:200]}', case))
            if kind == 'dir' and f == 'raise_partial':
                tdir = os.path.join(sc.base, 't')
                names = sorted(os.listdir(tdir))
                err = [n for n in names if n.endswith('_error')]
                if not err or not os.path.exists(os.path.join(tdir, err[0], 'sub', 'x.txt')):
                    res.violations.append(Violation('fault dir: work directory of the failed run not set aside as <key>_error', f'{label}: task dir holds {names}', case))
            if kind == 'continues' and f == 'raise_partial':
                tdir = os.path.join(sc.base, 't')
                names = sorted(os.listdir(tdir))
                tmp = [n for n in names if n.endswith('_tmp')]
                if not tmp or not any(x.startswith('step') for x in os.listdir(os.path.join(tdir, tmp[0]))):
                    res.violations.append(Violation('fault continues: work directory of the resumable task not kept', f'{label}: task dir holds {names}', case))
            if not same_chain:
                ch = sc.w.chain('v0', base_dir=sc.base)
                if forced:
                    ch['t'].force()
        # now the success
        try:
            p = sc.w.decode(ch['t'].value, kind)
            if p['term'] != sc.model.term('t'):
                res.violations.append(Violation(f'fault {kind}: wrong value after retry', f'{label}: {p["term"]}', case))
            if kind == 'continues' and 'raise_partial' in seq:
                steps = sorted(x.name for x in ch['t'].value.glob('step*'))
                if len(steps) != seq.count('raise_partial') + 1:
                    res.violations.append(Violation('fault continues: retry did not see the partial output of the failed attempt', f'{label}: steps {steps}', case))
        except Exception as e:  # noqa
            res.violations.append(Violation(f'fault {kind}: request after the faults does not recover', f'{label}: {type(e).__name__}: {str(e)[:300]}', case))
        res.add('evaluations')
        bad = sc.recover(label)
        for kind_v, msg in bad:
            res.violations.append(Violation(f'fault {kind}: {kind_v}', msg, case))
    finally:
        sc.close()
    return res


def _upstream_fault_job(args):
    """the INPUT of the requested task fails (not yet computed, or forced); the request fails; after the cause is gone the
    same chain must recover"""
    import tcv

    tcv.quiet_library()
    kind, style, fault, n_fail = args
    res = Result()
    sc = Scenario(kind, False, style)
    case = {'kind': 'upstream', 'data': kind, 'style': style, 'fault': fault, 'n': n_fail}
    label = f'{kind} ({style} style), upstream task fails {n_fail}x with {fault}, retry in the same chain'
    try:
        sc.w.rt.reset()
        ch = sc.w.chain('v0', base_dir=sc.base)
        sc.w.rt.faults['U'] = [fault] * n_fail
        for i in range(n_fail):
            res.add('transitions')
            try:
                _ = ch['t'].value
                res.violations.append(Violation(f'fault upstream {kind}: request succeeded although its input failed', f'{label}: attempt {i}', case))
            except (Exception, worlds.Interrupt):  # noqa
                pass
        try:
            p = sc.w.decode(ch['t'].value, kind)
            if p['term'] != sc.model.term('t'):
                res.violations.append(Violation(f'fault upstream {kind}: wrong value after the input recovered', f'{label}: {p["term"]}', case))
        except Exception as e:  # noqa
            res.violations.append(Violation(f'fault upstream {kind}: requesting the value again does not recover after a failed input', f'{label}: {type(e).__name__}: {str(e)[:300]}', case))
        res.add('evaluations')
        for kind_v, msg in sc.recover(label):
            res.violations.append(Violation(f'fault upstream {kind}: {kind_v}', msg, case))
    finally:
        sc.close()
    return res


def run(tier, seed):
    import tcv

    tcv.quiet_library()
    kinds = KINDS_Q if tier == 'quick' else KINDS_ALL
    res = Result()
    jobs = []
    per = {}
    for kind in kinds:
        for forced, buffered in ((False, False), (True, False), (False, True), (True, True)):
            ops, snaps, final = _record(kind, forced, buffered)
            per[f'{kind}/{"forced" if forced else "first"}/{"buffered" if buffered else "write-through"}'] = {'operations': len(ops), 'writes': sum(1 for o in ops if o[0] == 'write')}
            step = max(1, len(ops) // 6)
            for lo in range(0, len(ops), step):
                jobs.append((kind, forced, lo, min(len(ops), lo + step), [list(o) for o in ops], snaps, buffered))
    k = seed % len(jobs)
    jobs = jobs[k:] + jobs[:k]
    for r in pmap(_crash_job, jobs):
        res.merge(r)
    res.coverage['scenarios'] = per
    res.coverage['crash_states'] = res.coverage.get('evaluations', 0)
    fj = []
    for kind in kinds:
        fl = FAULTS[kind]
        seqs = [(f,) for f in fl] + ([(a, b) for a in fl for b in fl] if tier != 'quick' else [(fl[0], fl[-1])] + [(f, f) for f in fl if f == 'raise_partial'])
        for forced in (False, True):
            for seq in seqs:
                for same in (True, False):
                    fj.append((kind, forced, seq, same))
    for r in pmap(_fault_job, fj, chunksize=4):
        res.merge(r)
    uj = [(kind, style, fault, n) for kind in kinds for style in ('registry', 'args') for fault in ('raise', 'wrong_type') for n in (1, 2)]
    for r in pmap(_upstream_fault_job, uj, chunksize=4):
        res.merge(r)
    res.coverage['fault_sequences'] = len(fj) + len(uj)
    res.coverage['states'] = res.coverage['crash_states'] + len(fj)
    res.coverage['distinct_nontrivial'] = res.coverage['crash_states']
    res.coverage['traces_validated_against_impl'] = res.coverage['evaluations']
    res.coverage['exhaustive'] = True
    res.coverage['rule'] = ('per (data class, first|forced): every operation of the recorded compute+save path as a crash point (process death before it) + every proper prefix of every write '
                            '(all prefixes for payloads <= 64 units, else 1, n/2, n-1), each re-executed on the real code and handed to the real recovery path; tree-digest conformance '
                            'check per crash point; fault sequences of length 1 (and 2) x same/new chain; distinct_nontrivial = crash states')
    res.sample({'scenario': 'json/first/write-through', 'operations': per.get('json/first/write-through')})
    res.assumptions += ['crash = process death (no power loss / reordering of unsynced blocks; the library never syncs)', 'h5py and figure output are not covered (C-level I/O)']
    return res


def replay(case):
    import tcv

    tcv.quiet_library()
    if case['kind'] == 'crash':
        ops, snaps, final = _record(case['data'], case['forced'], case.get('buffered', False))
        r = _crash_job((case['data'], case['forced'], case['k'], case['k'] + 1, [list(o) for o in ops], snaps, case.get('buffered', False)))
        return [v for v in r.violations if v.case['torn'] == case['torn']]
    if case['kind'] == 'upstream':
        return _upstream_fault_job((case['data'], case['style'], case['fault'], case['n'])).violations
    return _fault_job((case['data'], case['forced'], tuple(case['seq']), case['same_chain'])).violations
