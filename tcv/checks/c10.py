"""C10 - task names resolve uniquely or not at all.

Part A: exhaustive enumeration of every name set of size <= k over a 40-name universe (nested namespaces, multi-level
groups, names that are textual prefixes/suffixes of each other), in EVERY declaration order, against every short/full
query, on the real `_find_task_full_name` (both namespace modes), compared with a component-wise reference resolver.
Part B (see c10 real-chain leg): the same answers through real chains: chain[q], q in chain, chain.get, attribute
access and a dependant's input_tasks.
"""
from itertools import permutations

from tcv import names as N
from tcv.core import Result, Violation
from tcv.pool import pmap


def _impl(query, ordered, determine_namespace):
    from taskchain.task import _find_task_full_name

    try:
        return _find_task_full_name(query, list(ordered), determine_namespace=determine_namespace)
    except KeyError as e:
        msg = str(e)
        return N.AMBIGUOUS if 'Ambiguous' in msg else N.NOTFOUND


def check_set(names_set, queries=None):
    """All orders x all queries x both modes for one name set. Returns (evaluations, nontrivial, unspecified, violations)."""
    out = []
    evals = nontrivial = unspec = 0
    queries = queries or N.ALL_QUERIES
    orders = list(permutations(names_set))
    for dn in (True, False):
        for q in queries:
            exp = N.resolve(q, names_set, dn)
            n_match = sum(1 for t in names_set if N.matches(q, t, dn))
            answers = []
            for order in orders:
                got = _impl(q, order, dn)
                evals += 1
                answers.append(got)
            if n_match >= 2:
                nontrivial += 1
            if exp == N.UNSPECIFIED:
                unspec += 1
                # only order independence is demanded
                if len(set(answers)) > 1:
                    out.append(Violation(
                        signature=f'find_task_full_name order-dependent dn={dn}',
                        what=f'names={list(names_set)} query={q!r}: answers differ by declaration order: {sorted(set(answers))}',
                        case={'names': list(names_set), 'query': q, 'dn': dn}))
                continue
            bad = [(o, a) for o, a in zip(orders, answers) if not _same(a, exp)]
            if bad:
                o, a = bad[0]
                kind = _kind(q, names_set, a, exp, dn)
                out.append(Violation(
                    signature=f'find_task_full_name {kind} dn={dn}',
                    what=f'names(in order)={list(o)} query={q!r} determine_namespace={dn}: got {a!r}, reference {exp!r}',
                    case={'names': list(o), 'query': q, 'dn': dn}))
    return evals, nontrivial, unspec, out


def _same(a, exp):
    if exp in (N.AMBIGUOUS, N.NOTFOUND):
        # any KeyError is an acceptable way of refusing; the statement only requires "raises an error rather than picking one"
        return a in (N.AMBIGUOUS, N.NOTFOUND)
    return a == exp


def _kind(q, names_set, got, exp, dn=True):
    if exp in (N.AMBIGUOUS, N.NOTFOUND) and got not in (N.AMBIGUOUS, N.NOTFOUND):
        # picked one although it must refuse: is it a textual-suffix pick?
        others = [t for t in names_set if N.matches(q, t, dn) and t != got]
        if all(t.endswith(got) for t in others):
            return 'picks-textual-suffix'
        return 'picks-one-of-ambiguous'
    if got in (N.AMBIGUOUS, N.NOTFOUND):
        return 'refuses-own-full-name' if q == exp else 'refuses-resolvable'
    return 'wrong-target'


def _shard(args):
    import tcv

    tcv.quiet_library()
    max_size, shard, nshards = args
    res = Result()
    i = 0
    for s in N.subsets(N.UNIVERSE, max_size):
        i += 1
        if i % nshards != shard:
            continue
        ev, nt, un, vs = check_set(s)
        res.add('evaluations', ev)
        res.add('distinct_nontrivial', nt)
        res.add('unspecified_skipped', un)
        res.add('name_sets', 1)
        res.add('transitions', ev)
        res.violations.extend(vs[:3])
        if i % 2003 == 1:
            res.sample({'names': list(s), 'queries': len(N.ALL_QUERIES), 'orders': 'all'})
    return res


def run(tier, seed):
    max_size = 3 if tier == 'quick' else 4
    nshards = 64
    res = Result()
    order = list(range(nshards))
    order = order[seed % nshards:] + order[:seed % nshards]  # seed only rotates enumeration order
    for r in pmap(_shard, [(max_size, s, nshards) for s in order]):
        res.merge(r)
    from tcv.checks import c10_chain

    res.merge(c10_chain.run(tier, seed))
    cov = res.coverage
    cov['states'] = cov.get('name_sets', 0) + cov.get('chain_worlds', 0)
    cov['traces_validated_against_impl'] = cov['evaluations']
    cov['exhaustive'] = True
    cov['rule'] = (f'every subset of size <= {max_size} of the 40-name universe {N.NAMESPACES} x {N.GROUPS} x {N.NAMES}, every '
                   f'permutation, every short/full query form of every universe name ({len(N.ALL_QUERIES)} queries), '
                   'determine_namespace in {True, False}; non-trivial = (set, query, mode) with >= 2 matching names')
    cov['bounds'] = {'max_set_size': max_size, 'universe': len(N.UNIVERSE), 'queries': len(N.ALL_QUERIES)}
    res.assumptions += ['partial forms (some but not all group levels / namespace levels) are outside the statement and not queried '
                        'unless they coincide with another member\'s form',
                        'where the textual-boundary and the component-wise reading of "less-nested form" disagree only order independence is demanded']
    # collapse duplicate signatures
    return res


def replay(case):
    import tcv

    tcv.quiet_library()
    if case.get('kind') == 'chain':
        from tcv.checks import c10_chain

        return c10_chain.replay(case)
    names_set = tuple(case['names'])
    _, _, _, vs = check_set(names_set, queries=[case['query']])
    return [v for v in vs if v.case['dn'] == case['dn']]
