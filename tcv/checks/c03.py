"""C03 - different computations get different storage locations.

X: the real storage key of EVERY member of a finite family of computations is computed and bucketed; a bucket that holds
two members whose reference computation descriptors differ is a collision. Bucketing decides all N(N-1)/2 pairs.
Family: JSON-like values (atoms incl. quote/separator attack strings, closed under lists and dicts) placed in a parameter
of the task itself, of an input at distance 1 and 2, as (nested) argument of parameter objects; two-parameter separator
attacks; input wirings that differ (swapped upstreams through two namespaces, optional input present/absent, diamond).
"""
import itertools

from tcv import enumvals, families, refmodel, scratch, worlds
from tcv.core import Result, Violation, digest, jdump
from tcv.pool import pmap

P, bc, bn = families.P, families.by_class, families.by_name


def values(tier):
    A = enumvals.ATOMS_KEYS
    vals = enumvals.json_values(A, 1, 2)
    if tier == 'quick':
        small = [0, 'a', "a', 'b", None]
        vals += [v for v in enumvals.json_values(small, 2, 1) if v not in vals]
        vals += [v for v in enumvals.json_values(['a', 'b', "a', 'b", 1], 2, 2)[:2500] if v not in vals[:50]]
    else:
        mid = [None, True, 0, 1, 1.0, 'a', 'b', "a', 'b"]
        vals += enumvals.json_values(mid, 2, 2)
    seen, out = set(), []
    for v in vals:
        k = enumvals._k(v)
        if k not in seen:
            seen.add(k)
            out.append(v)
    return out


def line_world():
    return {
        'name': 'line',
        'tasks': {
            'V': {'params': [P('v'), P('dq', default='2', dpdv=True)], 'inputs': [], 'data': 'json'},
            'W': {'params': [P('w', default=0)], 'inputs': [bc('V')], 'data': 'json'},
            'X': {'params': [], 'inputs': [bc('W')], 'data': 'json'},
        },
        'configs': {'root': {'medium': 'inline', 'cname': 'root', 'tasks': ['V', 'W', 'X'], 'tasks_as_classes': True, 'values': {}}},
        'root': 'root', 'variants': {},
    }


def memline_world():
    """an in-memory task between two persisted ones: changes upstream of it must still move the downstream result"""
    return {
        'name': 'memline',
        'tasks': {
            'V': {'params': [P('v')], 'inputs': [], 'data': 'json'},
            'W': {'params': [P('w', default=0)], 'inputs': [bc('V')], 'data': 'inmemory'},
            'X': {'params': [], 'inputs': [bc('W')], 'data': 'json'},
        },
        'configs': {'root': {'medium': 'inline', 'cname': 'root', 'tasks': ['V', 'W', 'X'], 'tasks_as_classes': True, 'values': {}}},
        'root': 'root', 'variants': {},
    }


def sep_world():
    """two parameters, one not persisted when default: separator / quoting attacks between fields"""
    return {
        'name': 'sep',
        'tasks': {'S': {'params': [P('a'), P('q', default='y', dpdv=True), P('r', default=None)], 'inputs': [], 'data': 'json'}},
        'configs': {'root': {'medium': 'inline', 'cname': 'root', 'tasks': ['S'], 'tasks_as_classes': True, 'values': {}}},
        'root': 'root', 'variants': {},
    }


SEP_VALUES = ['x', 'y', 'z', "x'###q='y", "x'###q='z", "x'###r='z", "y'$$$", 'x###q=y', None, 0, "'", "''", "x'", "'x", ['x'], "['x']", "x', 'y"]


def _keys_for(args):
    """-> list of (bucket, real key, descriptor digest, member label, has_quote)"""
    import tcv

    tcv.quiet_library()
    wname, members = args
    desc = {'line': line_world, 'sep': sep_world, 'memline': memline_world}[wname]()
    root = scratch.fresh('c03')
    w = worlds.World(desc, root)
    out = []
    try:
        for label, assign in members:
            d = worlds.apply_variant(desc, None)
            d['configs']['root']['values'] = dict(assign)
            m = refmodel.Model(d, w.modname)
            if m.error:
                continue
            ch = w.chain(None, base_dir=root + '/data', d=d)
            for fn, t in ch.tasks.items():
                out.append((f'{wname}:{fn}', t.name_for_persistence, digest(m.descriptor(fn)), label, _has_quote(assign), m.key_text(fn)))
    finally:
        w.dispose()
        scratch.drop(root)
    return out


def _has_quote(v):
    if isinstance(v, str):
        return "'" in v
    if isinstance(v, list):
        return any(_has_quote(x) for x in v)
    if isinstance(v, dict):
        return any(_has_quote(x) for x in v.values()) or any(_has_quote(k) for k in v)
    return False


def members(tier):
    vals = values(tier)
    line = []
    for v in vals:
        line.append((f'v={v!r}', {'v': v}))
    objvals = vals[:400] if tier == 'quick' else vals[:3000]
    for v in objvals:
        line.append((f'v=Auto1(a={v!r})', {'v': {'__obj__': 'Auto1', 'kwargs': {'a': v}}}))
        line.append((f'v=Auto1(a=[{v!r}])', {'v': {'__obj__': 'Auto1', 'kwargs': {'a': [v]}}}))
        line.append((f'v=[Hand1({v!r})]', {'v': [{'__obj__': 'Hand1', 'args': [v]}]}))
    # base class first, then the subclass differing only in its own argument
    line.append(('v=Auto1(a=1)', {'v': {'__obj__': 'Auto1', 'kwargs': {'a': 1}}}))
    for pad in (0, 1, 8, 'x'):
        line.append((f'v=Auto3(a=1,pad={pad!r})', {'v': {'__obj__': 'Auto3', 'kwargs': {'a': 1, 'pad': pad}}}))
    for b in (None, False, '', [], 0.0):   # Auto1 keeps `b` only in a private attribute: falsy values must stay distinct
        line.append((f'v=Auto1(a=1,b={b!r})', {'v': {'__obj__': 'Auto1', 'kwargs': {'a': 1, 'b': b}}}))
        line.append((f'v=[Auto1(a=1,b={b!r})]', {'v': [{'__obj__': 'Auto1', 'kwargs': {'a': 1, 'b': b}}]}))
    # the SAME container object occurring more than once in a value (YAML aliases, reused python lists)
    A_, B_ = [1, 'a'], [2, 'b']
    D_, E_ = {'k': 1}, {'k': 2}
    for label, val in (('[A,B,A]', [A_, B_, A_]), ('[A,B,B]', [A_, B_, B_]), ('{x:D,y:E,z:D}', {'x': D_, 'y': E_, 'z': D_}), ('{x:D,y:E,z:E}', {'x': D_, 'y': E_, 'z': E_}),
                       ('[A,[A]]', [A_, [A_]]), ('[A,[B]]', [A_, [B_]])):
        line.append((f'v=shared {label}', {'v': val}))
    # long values that differ in one element in the middle
    ids = list(range(1000, 1400))
    for pos in (0, 200, 399):
        v2 = list(ids)
        v2[pos] = 9999
        line.append((f'v=ids[{pos}]=9999', {'v': v2}))
    line.append(('v=ids', {'v': ids}))
    for ch in 'MN':
        line.append((f'v=long text {ch}', {'v': 'x' * 600 + ch + 'x' * 600}))
    for b in (0, 1, 2):
        line.append((f'v=Auto1(a=1,b={b})', {'v': {'__obj__': 'Auto1', 'kwargs': {'a': 1, 'b': b}}}))
        line.append((f'v=Auto2(a=1,c={b + 4})', {'v': {'__obj__': 'Auto2', 'kwargs': {'a': 1, 'c': b + 4}}}))
    # a parameter object with variadic keyword arguments (stored under the parameter's name): every captured argument matters
    for opts in ({}, {'min_len': 2}, {'min_len': 3}, {'min_len': 2, 'lower': True}, {'lower': True}, {'min_len': [2]}):
        line.append((f'v=AutoVar(a=1,**{opts!r})', {'v': {'__obj__': 'AutoVar', 'kwargs': dict({'a': 1}, **opts)}}))
        line.append((f'v=[AutoVar(a=1,**{opts!r})]', {'v': [{'__obj__': 'AutoVar', 'kwargs': dict({'a': 1}, **opts)}]}))
    # a parameter object that stores the raw argument privately and a derived form publicly: the raw one counts
    for cols in (['z', 'a', 'm'], ['a', 'm', 'z'], ['m', 'a', 'z'], ['a', 'm'], [3, 1, 2], [1, 2, 3]):
        line.append((f'v=AutoBoth({cols!r})', {'v': {'__obj__': 'AutoBoth', 'kwargs': {'cols': cols}}}))
    for pth in ('a/b', 'A/B', 'a/B'):
        line.append((f'v=AutoRaw({pth!r})', {'v': {'__obj__': 'AutoRaw', 'kwargs': {'path': pth}}}))
    for v in vals[:60]:
        line.append((f'v=0,w={v!r}', {'v': 0, 'w': v}))
    # floats that differ only in the last digits a double has
    for f_ in (0.3, 0.1 + 0.2, 1 / 3, 0.333333333333333, 0.3333333333333334, 1e16, 1e16 + 2, 5e-324, 0.0):
        line.append((f'v=float {f_!r}', {'v': f_}))
        line.append((f'v=[{{k: float {f_!r}}}]', {'v': [{'k': [f_]}]}))
    # strings that are canonically / compatibility equivalent in Unicode, differ in case or in surrounding blanks: different strings, different values
    for t_ in ('caf\u00e9', 'cafe\u0301', '\u212b', '\u00c5', 'A\u030a', '\uac00', '\u1100\u1161', '\ufb01', 'fi', 'K', 'k', 'k ', ' k', 'k\u00a0', '\u017f', 's'):
        line.append((f'v=text {t_!a}', {'v': t_}))
        line.append((f'v=[{{text {t_!a}: [..]}}]', {'v': [{'k': [t_], t_: 1}]}))
    # a value of another type that merely PRINTS like the not-persisted default ('2'): it is not the default
    for dq in ('2', 2, 2.0, True, 'True', None, 'None'):
        line.append((f'v=0,dq={dq!r}', {'v': 0, 'dq': dq}))
    sep = []
    for a, q, r in itertools.product(SEP_VALUES, SEP_VALUES[:8] + [None], SEP_VALUES[:6] + [None]):
        if tier == 'quick' and (hash((str(a), str(q), str(r))) % 3):
            continue
        sep.append((f'a={a!r},q={q!r},r={r!r}', {'a': a, 'q': q, 'r': r}))
    return line, sep


def wiring_members():
    """differing input wirings over shared worlds: (bucket, key, descriptor)"""
    out = []
    def samename():
        # one short name `features` provided by different tasks (other group, other class) with equal parameters: the consumer that
        # names it by the short form, and everything downstream, is a different computation in each variant
        P, bn = families.P, families.by_name
        T = lambda name, group=None, inputs=(), params=(): {'name': name, 'group': group, 'params': list(params), 'inputs': list(inputs), 'data': 'json'}  # noqa
        return {'name': 'samename', 'tasks': {'Raw': T('features', 'raw', params=[P('pf', default=1)]), 'Scaled': T('features', 'scaled', params=[P('pf', default=1)]),
                                               'Plain': T('features', None, params=[P('pf', default=1)]),
                                               'Model': T('model', None, inputs=[bn('features')]), 'Report': T('report', None, inputs=[bn('model')])},
                'configs': {'root': {'medium': 'json', 'tasks': ['Raw', 'Model', 'Report'], 'values': {}}}, 'root': 'root',
                'variants': {'vraw': [], 'vscaled': [[['configs', 'root', 'tasks'], ['Scaled', 'Model', 'Report']]], 'vplain': [[['configs', 'root', 'tasks'], ['Plain', 'Model', 'Report']]]}}
    specs = [(families.mount2, None), (families.mount2p, None), (families.diamond, None), (families.optpat, None), (families.chain3, None), (families.uses2, None), (samename, None)]
    for f, _ in specs:
        desc = f()
        root = scratch.fresh('c03w')
        w = worlds.World(desc, root)
        try:
            for vid in desc['variants']:
                m = refmodel.Model(w.variant(vid), w.modname)
                ch = w.chain(vid, base_dir=root + '/data')
                for fn, t in ch.tasks.items():
                    out.append((f'{desc["name"]}:{m.tasks[fn].local}', t.name_for_persistence, digest(m.descriptor(fn)), f'{vid}/{fn}', False, m.key_text(fn)))
        finally:
            w.dispose()
            scratch.drop(root)
    return out


def inplace_sweep():
    """one data dict kept by the program and edited IN PLACE between constructions (a sweep loop in a notebook): every setting is a
    different computation and gets its own location, the same as when the setting is written out as a fresh dict"""
    import copy
    from pathlib import Path

    from taskchain import Config, Parameter, Task

    class Train(Task):
        class Meta:
            parameters = [Parameter('model'), Parameter('tags', default=None)]

        def run(self, model) -> dict:
            return model

    class Evaluate(Task):
        class Meta:
            input_tasks = [Train]

        def run(self, train) -> dict:
            return train

    out = []
    root = scratch.fresh('c03s')
    try:
        data = {'tasks': [Train, Evaluate], 'model': {'optimizer': {'lr': 0.1, 'betas': [0.9]}, 'layers': [16]}, 'tags': ['a']}
        edits = [lambda d: None,
                 lambda d: d['model']['optimizer'].__setitem__('lr', 0.01),
                 lambda d: d['model']['layers'].append(32),
                 lambda d: d['model']['optimizer']['betas'].append(0.99),
                 lambda d: d['tags'].append('b'),
                 lambda d: d['model'].__setitem__('dropout', 0.5)]
        seen = {}
        for i, edit in enumerate(edits):
            edit(data)
            ch = Config(Path(root) / 'data', name='sweep', data=data).chain()
            fresh = Config(Path(root) / 'data', name='sweep', data=copy.deepcopy({k: v for k, v in data.items() if k != 'tasks'}) | {'tasks': [Train, Evaluate]}).chain()
            for t in ('train', 'evaluate'):
                key, fkey = ch[t].name_for_persistence, fresh[t].name_for_persistence
                snap = repr({k: v for k, v in data.items() if k != 'tasks'})
                if key != fkey:
                    out.append(Violation('sweep: location depends on whether a value was edited in place or written out afresh', f'step {i} task {t}: {key} vs {fkey} for {snap}', {'kind': 'sweep'}))
                if (t, key) in seen and seen[(t, key)] != snap:
                    out.append(Violation('sweep: different computations have the same key (value edited in place between constructions)',
                                         f'task {t}: {seen[(t, key)]} and {snap} both stored under {key}', {'kind': 'sweep'}))
                seen[(t, key)] = snap
    finally:
        scratch.drop(root)
    return out[:3]


def mutated_default_scenario():
    """a parameter with a MUTABLE default that is not persisted when default; run() changes the value it was given in place (sorts it). A later
    config that spells out the changed value is a different computation than the one with the declared default - own location, own result -
    and a later config that omits the parameter still computes with the declared default"""
    from pathlib import Path

    from taskchain import Config, Parameter, Task

    class Ranking(Task):
        class Meta:
            parameters = [Parameter('scores', default=[3, 1, 2], dont_persist_default_value=True), Parameter('opts', default={'k': [2, 1]}, dont_persist_default_value=True)]

        def run(self, scores, opts) -> dict:
            given = {'first': scores[0], 'k': list(opts['k'])}
            scores.sort()
            opts['k'].sort()
            return given

    out = []
    root = scratch.fresh('c03m')
    try:
        def chain(name, **values):
            return Config(Path(root) / 'data', name=name, data=dict({'tasks': [Ranking]}, **values)).chain()
        c1 = chain('declared')
        k1, v1 = c1['ranking'].name_for_persistence, c1['ranking'].value
        c2 = chain('spelled', scores=[1, 2, 3], opts={'k': [1, 2]})
        k2, v2 = c2['ranking'].name_for_persistence, c2['ranking'].value
        c3 = chain('declared-again')
        k3, seen3 = c3['ranking'].name_for_persistence, (list(c3['ranking'].params.scores), dict(c3['ranking'].params.opts))
        if k1 == k2 or v2 != {'first': 1, 'k': [1, 2]}:
            out.append(Violation('mutated-default: different computations have the same key', f'default scores [3, 1, 2] (sorted in place by run) and explicit scores [1, 2, 3]: keys {k1} / {k2}, '
                                 f'values {v1} / {v2}', {'kind': 'mutated-default'}))
        if k3 != k1 or seen3 != ([3, 1, 2], {'k': [2, 1]}):
            out.append(Violation('mutated-default: a later task of the class does not get the declared default', f'key {k3} vs {k1}, parameter values {seen3}', {'kind': 'mutated-default'}))
    finally:
        scratch.drop(root)
    return out


def run(tier, seed):
    import tcv

    tcv.quiet_library()
    line, sep = members(tier)
    jobs = []
    n = 48
    # object members stay in ONE shard in their original order (base class before subclass in one process)
    plain = [mbr for mbr in line if '__obj__' not in jdump(mbr[1]) and not mbr[0].startswith('v=shared')]
    objs = [mbr for mbr in line if '__obj__' in jdump(mbr[1]) or mbr[0].startswith('v=shared')]
    for i in range(n):
        jobs.append(('line', plain[i::n]))
    jobs.append(('line', objs))
    for i in range(8):
        jobs.append(('sep', sep[i::8]))
    memvals = plain[:300] + [(f'v=0,w={v!r}', {'v': 0, 'w': v}) for v in (1, 2, 'a', [1], None)]
    for i in range(4):
        jobs.append(('memline', memvals[i::4]))
    k = seed % len(jobs)
    jobs = jobs[k:] + jobs[:k]
    rows = []
    for r in pmap(_keys_for, jobs):
        rows += r
    rows += wiring_members()
    buckets = {}
    for bucket, key, dd, label, quote, text in rows:
        buckets.setdefault((bucket, key), {}).setdefault(dd, (label, quote, text))
    res = Result()
    res.coverage['evaluations'] = len(rows)
    res.coverage['transitions'] = len(rows)
    res.coverage['states'] = len(buckets)
    res.coverage['distinct_nontrivial'] = len({(b, dd) for (b, k), ds in buckets.items() for dd in ds})
    res.coverage['members'] = {'line': len(line), 'sep': len(sep)}
    ncoll = 0
    for (bucket, key), ds in sorted(buckets.items()):
        if len(ds) > 1:
            ncoll += 1
            items = sorted(ds.values())
            all_quote = sum(1 for l, q, t in items if q) >= len(items) - 1
            texts = {t for l, q, t in items}
            if len(texts) == 1 and all_quote:
                sig = f'{bucket.split(":")[0]}: key-text collision through an unescaped quote in a str leaf'
            elif len(texts) == 1:
                sig = f'{bucket.split(":")[0]}: different computations have the same key text'
            else:
                sig = f'{bucket.split(":")[0]}: different computations have the same key (texts differ)'
            res.violations.append(Violation(sig, f'task {bucket}: {[l for l, q, t in items][:4]} all stored under {key} (key text {items[0][2]!r})',
                                            {'bucket': bucket, 'members': [l for l, q, t in items][:4]}))
    res.coverage['colliding_buckets'] = ncoll
    res.violations.extend(inplace_sweep())
    res.violations.extend(mutated_default_scenario())
    res.coverage['evaluations'] += 12
    res.coverage['traces_validated_against_impl'] = len(rows)
    res.coverage['exhaustive'] = True
    res.coverage['rule'] = ('keys of all tasks V -> W -> X for every value of the family in V.v (distance 0, 1, 2), values wrapped in parameter objects at nesting 0/1, a base/subclass object pair, '
                            'a second parameter; two-parameter separator attacks (a, q not persisted at default, r); wirings of shared worlds; all pairs decided by bucketing on (task, key); '
                            'distinct_nontrivial = distinct (task, descriptor) members')
    res.sample({'bucketed_members': len(rows), 'example': rows[5][:4] if len(rows) > 5 else None})
    res.assumptions += ['sha256 truncated to 32 hex digits is treated as collision-free; a collision is attributed to the key text when the texts coincide',
                        'a value Python-equal to a declared default under dont_persist_default_value is by definition not persisted']
    return res


def replay(case):
    if case.get('kind') == 'mutated-default':
        import tcv
        tcv.quiet_library()
        return mutated_default_scenario()
    if case.get('kind') == 'sweep':
        import tcv
        tcv.quiet_library()
        return inplace_sweep()
    import tcv

    tcv.quiet_library()
    # recompute only the named members
    res = run('quick', 0)
    return [v for v in res.violations if v.case['bucket'] == case['bucket'] and set(v.case['members']) & set(case['members'])]
