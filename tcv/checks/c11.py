"""C11 - placeholders are substituted everywhere, once, and nothing else changes.

Part A (X): every string of length <= L over {'{','}','A','B','x',' '} (+ newline / long-name cases) x a menu of global_vars
(dicts and objects) x positions (alone, and at depth 1..3 of list/dict containers next to non-strings), on the real
search_and_replace_placeholders, against an independent left-to-right tokenizer; idempotence; str behaviour; repr after
copy / deepcopy.
Part B (X): through real Config / Context / Chain objects: parameter values, `uses` paths of configs and of contexts,
context values, args/kwargs of object definitions.
"""
import copy
import json
import json as _json_mod
import os
import types
from pathlib import Path

from tcv import enumvals, families, refmodel, scratch, worlds
from tcv.core import Result, Violation
from tcv.pool import pmap

ALPHABET = ['{', '}', 'A', 'B', 'x', ' ']


class _Obj:
    A = 'oa'
    B = 7


class _Falsy:
    A = 0
    B = ''


class _Reentrant:
    """global_vars whose attribute is computed by running ANOTHER substitution with other variables (a settings object that reads a second
    config): the outer substitution goes on with its own variables"""
    B = 'outer-b'

    @property
    def A(self):
        from taskchain.utils.data import search_and_replace_placeholders
        inner = search_and_replace_placeholders(['{B}x', {'k': '{A}'}], {'B': 'inner-b', 'A': 'inner-a'})
        assert [str(inner[0]), str(inner[1]['k'])] == ['inner-bx', 'inner-a'], inner
        return 'a'


def gv_menu():
    mod = types.ModuleType('gvmod')
    mod.A = 'ma'
    return [
        ('empty', {}), ('A', {'A': 'a'}), ('AB', {'A': 'a', 'B': 'b'}), ('A->{B}', {'A': '{B}', 'B': 'b'}), ('int', {'A': 1}),
        ('path', {'A': Path('/p/q')}), ('emptyname', {'': 'e', 'A': 'a'}), ('obj', _Obj()), ('module', mod), ('brace', {'A': '}{', 'B': '{A}'}),
        ('long', {'A B': 'sp', 'x': 'X'}),
        # defined, but falsy values; mappings that are not dicts
        ('falsy', {'A': 0, 'B': ''}), ('none-false', {'A': None, 'B': False}), ('falsy-obj', _Falsy()),
        ('reentrant', _Reentrant()),
        ('mappingproxy', types.MappingProxyType({'A': 'a', 'B': 'b'})), ('userdict', __import__('collections').UserDict({'A': 'a'})),
    ]


def gv_as_dict(gv):
    if isinstance(gv, dict):
        return gv

    class V(dict):
        def __contains__(self, k):
            return isinstance(k, str) and hasattr(gv, k) if k.isidentifier() or True else False

        def __getitem__(self, k):
            return getattr(gv, k)
    return V()


def ref_sub(s, gv):
    import collections.abc
    if isinstance(gv, collections.abc.Mapping):
        return refmodel.substitute(s, gv)

    class V:
        def __contains__(self, k):
            try:
                return hasattr(gv, k)
            except Exception:  # noqa
                return False

        def __getitem__(self, k):
            return getattr(gv, k)
    return refmodel.substitute(s, V())


def check_string(s, gvname, gv, fn):
    """-> list of (kind, msg)"""
    out = []
    exp, found = ref_sub(s, gv)
    got = fn(s, gv)
    if not isinstance(got, str) or str.__str__(got) != exp:
        out.append(('wrong-text', f'{s!r} with {gvname}: got {str(got)!r}, reference {exp!r}'))
        return out
    if repr(got) != repr(s):
        out.append(('repr-changed', f'{s!r} with {gvname}: repr {repr(got)!r} != {repr(s)!r}'))
    again = fn(got, gv)
    if again is not got and not (type(again) is str and again == got and not found):
        out.append(('not-idempotent', f'{s!r} with {gvname}: second application returned a different object {again!r}'))
    if str(again) != exp:
        out.append(('not-idempotent', f'{s!r} with {gvname}: second application changed the text to {str(again)!r}'))
    for name, c in (('copy', copy.copy(got)), ('deepcopy', copy.deepcopy(got)), ('deepcopy-in-list', copy.deepcopy([got])[0]), ('deepcopy-in-dict', copy.deepcopy({'k': got})['k'])):
        if str(c) != exp or repr(c) != repr(s):
            out.append((f'{name}-changes-repr', f'{s!r} with {gvname}: {name} has text {str(c)!r} repr {repr(c)!r}, expected text {exp!r} repr {repr(s)!r}'))
    # behaves as an ordinary string
    e = exp
    try:
        ok = (got == e and e == got and hash(got) == hash(e) and got + '!' == e + '!' and '!' + got == '!' + e and got[1:3] == e[1:3] and len(got) == len(e)
              and f'{got}' == e and '%s' % got == e and str(got) == e and got.upper() == e.upper() and json.dumps({'k': got}) == json.dumps({'k': e})
              and {got: 1}[e] == 1 and os.path.join('/r', got) == os.path.join('/r', e) and got.split('x') == e.split('x') and (got in {e}) and isinstance(got, str)
              and got.encode() == e.encode() and sorted([got, 'm']) == sorted([e, 'm']))
        import pickle
        for proto in (2, pickle.HIGHEST_PROTOCOL):
            back = pickle.loads(pickle.dumps([got], protocol=proto))[0]   # values travel to worker processes / into pickled results
            ok = ok and back == e and repr(back) == repr(s)
    except Exception as ex:  # noqa
        ok = False
        out.append(('not-str-like', f'{s!r} with {gvname}: {type(ex).__name__}: {ex}'))
    if not ok and not out:
        out.append(('not-str-like', f'{s!r} with {gvname}: substituted string does not behave like {e!r}'))
    return out


def containers(s):
    """positions: the string at depth 1..3 in list/dict containers next to non-strings; returns (name, build())"""
    return [
        ('list1', lambda: [1, s, None, 2.5, True, [], {}]),
        ('dict1', lambda: {'k': s, 'n': 1, 'b': False, 'e': [], 'z': None}),
        ('list2', lambda: [[0, s], {'k': [s, 3]}]),
        ('dict3', lambda: {'a': {'b': {'c': s, 'd': 1.0}, 'l': [s, [s]]}, 'x': 0}),
        ('key', lambda: {s: 'v', 'w': s}),
        # the same TEXT after substitution in different forms (placeholder form, plain text, another placeholder form):
        # each keeps its own representation, also on a second pass
        ('twins', lambda: [s, _PLAIN[0], {'k': s, 'p': _PLAIN[0]}, _PLAIN[0] + '', s]),
    ]


_PLAIN = ['']


def check_container(s, gvname, gv, fn):
    out = []
    exp, found = ref_sub(s, gv)
    _PLAIN[0] = exp
    for cname, build in containers(s):
        obj = build()
        ids = {}
        _collect_ids(obj, ids, ())
        before = copy.deepcopy(obj)
        ret = fn(obj, gv)
        if ret is not obj:
            out.append(('container-not-in-place', f'{cname} {s!r}: returned a different object'))
            continue
        bad = _compare(obj, before, s, lambda t: ref_sub(t, gv)[0], ids, ())
        if bad:
            out.append((f'container-{bad[0]}', f'{cname} with {s!r} / {gvname}: {bad[1]}; result {obj!r}'))
            continue
        snap = _ids_of_leaves(obj)
        rsnap = repr(obj)
        fn(obj, gv)
        if _ids_of_leaves(obj) != snap or repr(obj) != rsnap:
            out.append(('container-not-idempotent', f'{cname} with {s!r} / {gvname}: second application replaced leaves / changed representations: {obj!r} vs {rsnap}'))
        if repr(obj) != repr(before):
            out.append(('container-repr-changed', f'{cname} with {s!r} / {gvname}: repr {obj!r} vs {before!r}'))
        c = copy.deepcopy(obj)
        if repr(c) != repr(before) or json.dumps(_plain(c), sort_keys=True) != json.dumps(_plain(_expected_tree(before, s, lambda t: ref_sub(t, gv)[0])), sort_keys=True):
            out.append(('deepcopy-changes-repr', f'{cname} with {s!r} / {gvname}: deepcopy of the substituted structure has repr {c!r}, expected {before!r}'))
    return out


def _plain(o):
    if isinstance(o, dict):
        return {str(k): _plain(v) for k, v in o.items()}
    if isinstance(o, list):
        return [_plain(v) for v in o]
    if isinstance(o, str):
        return str.__str__(o)
    return o


def _expected_tree(o, s, exp):
    if isinstance(o, dict):
        return {k: _expected_tree(v, s, exp) for k, v in o.items()}  # keys are not rewritten
    if isinstance(o, list):
        return [_expected_tree(v, s, exp) for v in o]
    if isinstance(o, str):
        return exp(o)
    return o


def _collect_ids(o, ids, path):
    if isinstance(o, dict):
        for k, v in o.items():
            _collect_ids(v, ids, path + (k,))
    elif isinstance(o, list):
        for i, v in enumerate(o):
            _collect_ids(v, ids, path + (i,))
    if not isinstance(o, str):
        ids[path] = id(o)


def _ids_of_leaves(o):
    out = []
    if isinstance(o, dict):
        for k, v in o.items():
            out.append(_ids_of_leaves(v))
    elif isinstance(o, list):
        for v in o:
            out.append(_ids_of_leaves(v))
    else:
        out.append(id(o))
    return out


def _compare(o, before, s, exp, ids, path):
    if isinstance(before, dict):
        if not isinstance(o, dict) or list(o.keys()) != list(before.keys()):
            return 'keys-rewritten', f'at {path}: keys {list(o.keys()) if isinstance(o, dict) else o!r} vs {list(before.keys())}'
        for k in before:
            r = _compare(o[k], before[k], s, exp, ids, path + (k,))
            if r:
                return r
        return _same_obj(o, ids, path)
    if isinstance(before, list):
        if not isinstance(o, list) or len(o) != len(before):
            return 'shape-changed', f'at {path}'
        for i in range(len(before)):
            r = _compare(o[i], before[i], s, exp, ids, path + (i,))
            if r:
                return r
        return _same_obj(o, ids, path)
    if isinstance(before, str):
        want = exp(before)  # every string leaf is substituted on its own terms
        if not isinstance(o, str) or str.__str__(o) != want:
            return 'wrong-text', f'at {path}: {o!r} (text {str(o)!r}), reference {want!r}'
        return None
    if o is not before and o != before or type(o) is not type(before):
        return 'non-string-changed', f'at {path}: {o!r} vs {before!r}'
    return _same_obj(o, ids, path)


def _same_obj(o, ids, path):
    if ids.get(path) is not None and ids[path] != id(o):
        return 'non-string-replaced', f'at {path}: object identity changed'
    return None


def _strings(tier):
    L = 5 if tier == 'quick' else 7
    out = list(enumvals.strings(ALPHABET, L))
    out += ['{A}\n{B}', '{A\n}', '{\n{A}}', 'a{A}b{A}c', '{A B}', '{' * 3 + 'A' + '}' * 3, '{A}' * 4, 'é{A}☃', '{A}{B}{A}{UNDEF}{B}', '{x}{ }{}', '{A}/x/{UNDEF}/{B}', '}{A}{', '{A}}', '{{A}']
    return out


def _shard_a(args):
    import tcv

    tcv.quiet_library()
    from taskchain.utils.data import search_and_replace_placeholders as fn

    strings, with_containers = args
    res = Result()
    for s in strings:
        for gvname, gv in gv_menu():
            res.add('evaluations')
            res.add('transitions')
            exp, found = ref_sub(s, gv)
            if found and exp != s:
                res.add('distinct_nontrivial')
            bad = check_string(s, gvname, gv, fn)
            if with_containers and (found or len(s) <= 2):
                bad += check_container(s, gvname, gv, fn)
                res.add('evaluations', 5)
            for kind, msg in bad[:2]:
                res.violations.append(Violation(f'search_and_replace_placeholders {kind}', msg, {'kind': 'fn', 's': s, 'gv': gvname}))
    return res


def _attr_names_leg():
    """a MAPPING defines exactly its keys: a placeholder whose name happens to be an attribute of the mapping object ({keys}, {values}, {items},
    {get}, {copy}, {__class__} ...) is undefined and stays as it is - for every public attribute name of every mapping type of the menu"""
    import collections
    import collections.abc
    from taskchain.utils.data import search_and_replace_placeholders as fn

    class _M(collections.abc.Mapping):
        def __init__(self, d):
            self.d = d

        def __getitem__(self, k):
            return self.d[k]

        def __iter__(self):
            return iter(self.d)

        def __len__(self):
            return len(self.d)

    res = Result()
    for gvname, gv in [('dict', {'A': 'a'}), ('mappingproxy', types.MappingProxyType({'A': 'a'})), ('userdict', collections.UserDict({'A': 'a'})), ('defaultdict', collections.defaultdict(str, {'A': 'a'})),
                       ('ordereddict', collections.OrderedDict({'A': 'a'})), ('abc-mapping', _M({'A': 'a'}))]:
        names = [n for n in dir(gv) if not n.startswith('_')] + ['__class__', '__len__', '__doc__', 'd', 'data', 'default_factory']
        before = len(gv)
        for n in names:
            s = '{%s}/{A}' % n
            res.add('evaluations')
            res.add('transitions')
            try:
                got = fn(s, gv)
            except Exception as e:  # noqa
                got = f'{type(e).__name__}: {e}'
            if str(got) != '{%s}/a' % n:
                res.violations.append(Violation('search_and_replace_placeholders wrong-text', f'{s!r} with a {gvname} that defines only A: got {str(got)[:120]!r}, reference {"{%s}/a" % n!r}', {'kind': 'attr-names'}))
        if len(gv) != before:
            res.violations.append(Violation('search_and_replace_placeholders changes global_vars', f'{gvname}: {before} -> {len(gv)} keys after looking up undefined names', {'kind': 'attr-names'}))
    return res


# ------------------------------------------------------------------------------------------------ part B
def config_world():
    P, bc = families.P, families.by_class
    return {
        'name': 'phcfg',
        'tasks': {
            'A': {'params': [P('s'), P('nested', default=None), P('obj', default=None), P('pth', default=None, dtype='Path'), P('plain', default='no placeholders')],
                  'inputs': [], 'data': 'json'},
            'B': {'params': [P('cv', default='dflt')], 'inputs': [], 'data': 'json'},
        },
        'configs': {
            'root': {'medium': 'json', 'tasks': ['B'], 'values': {}, 'uses': [{'config': 'low'}]},
            'low': {'medium': 'yaml', 'dir': 'sub dir', 'tasks': ['A'],
                    'values': {'s': '{DIR}/x/{UNDEF}/{N}', 'nested': [1, '{DIR}', {'k': ['a{N}b', None, 2.5], 'u': '{UNDEF}'}],
                               'obj': {'__obj__': 'Auto1', 'args': ['{DIR}/m'], 'kwargs': {'b': ['{N}', 3]}}, 'pth': '{DIR}/p'}},
        },
        'root': 'root',
        'global_vars': {'DIR': '/data dir', 'N': 5},
        'variants': {
            'v0': [],
            'obj_gv': [[['global_vars'], {'DIR': '/data dir', 'N': 5, '__as_object__': True}]],
            'ctx_dict': [[['context'], {'kind': 'dict', 'data': {'cv': 'c-{DIR}-{N}'}}]],
            'ctx_file': [[['context'], {'kind': 'yaml', 'data': {'cv': 'c-{DIR}-{N}'}}]],
            'ctx_ns': [[['configs', 'root', 'uses'], [{'config': 'low', 'as': 'n'}]],
                       [['context'], {'kind': 'dict', 'data': {'cv': '{N}'}, 'for_namespaces': {'n': {'s': 'ns-{DIR}'}}}]],
            'ctx_list': [[['context'], {'kind': 'list', 'items': [{'kind': 'dict', 'data': {'cv': 'first-{N}'}}, {'kind': 'json', 'data': {'cv': 'second-{DIR}'}}]}]],
            'other_values': [[['global_vars'], {'DIR': 'elsewhere', 'N': 'five'}]],
        },
    }


def _ctx_uses_cases(root):
    """contexts whose `uses` paths contain placeholders: written by hand (the world grammar writes absolute paths)"""
    cdir = os.path.join(root, 'ctxs')
    os.makedirs(cdir, exist_ok=True)
    with open(os.path.join(cdir, 'leaf.json'), 'w') as f:
        json.dump({'cv': 'leaf-{N}'}, f)
    with open(os.path.join(cdir, 'mid.json'), 'w') as f:
        json.dump({'uses': ['{CTX}/leaf.json as inner'], 'other': 1}, f)
    cases = {
        'ctx_uses_list_ns': ({'uses': ['{CTX}/leaf.json as n']}, {'n': 'leaf-5'}),
        'ctx_uses_list_plain': ({'uses': ['{CTX}/leaf.json']}, {None: 'leaf-5'}),
        'ctx_uses_str_plain': ({'uses': '{CTX}/leaf.json'}, {None: 'leaf-5'}),
        'ctx_uses_str_ns': ({'uses': '{CTX}/leaf.json as n'}, {'n': 'leaf-5'}),
        'ctx_uses_nested': ({'uses': ['{CTX}/mid.json as m']}, {'m::inner': 'leaf-5'}),
    }
    return cdir, cases


def _part_b(tier):
    import tcv

    tcv.quiet_library()
    from taskchain import Chain, Config

    res = Result()
    desc = config_world()
    root = scratch.fresh('c11b')
    w = worlds.World(desc, root)
    try:
        for vid in desc['variants']:
            d = w.variant(vid)
            m = refmodel.Model(d, w.modname)
            case = {'kind': 'cfg', 'vid': vid}
            res.add('evaluations')
            res.add('transitions')
            try:
                ch = w.chain(vid, base_dir=os.path.join(root, f'data_{vid}'))  # own store: keys do not depend on substituted values (by design)
            except Exception as e:  # noqa
                res.violations.append(Violation('config: chain with placeholders fails to build', f'{vid}: {type(e).__name__}: {e}', case))
                continue
            for fn, t in ch.tasks.items():
                ti = m.tasks[fn]
                for p in ti.decl['params']:
                    name = p['name']
                    got = t.params[name]
                    exp = ti.params[name]
                    res.add('evaluations')
                    res.add('distinct_nontrivial')
                    if worlds.jsonable(got) != refmodel.term_value(exp):
                        res.violations.append(Violation(f'config: parameter value not substituted as the reference ({name})',
                                                        f'{vid} {fn}.{name}: task receives {worlds.jsonable(got)!r}, reference {refmodel.term_value(exp)!r}', case))
                    par = t.params._parameters[name]
                    if par.value_repr() != m.param_reprs(fn)[name]:
                        res.violations.append(Violation(f'config: persistence representation does not keep the placeholder form ({name})',
                                                        f'{vid} {fn}.{name}: value_repr {par.value_repr()!r}, reference {m.param_reprs(fn)[name]!r}', case))
                # a copy of the declaring config keeps the representations
                cfg = t.get_config().get_original_config()
                c2 = copy.deepcopy(dict(cfg.data))
                for k, v in cfg.data.items():
                    if k in ('tasks', 'uses', 'obj'):
                        continue
                    if repr(c2[k]) != repr(v):
                        res.violations.append(Violation('config: deepcopy of config data changes representations',
                                                        f'{vid} {fn} key {k}: {c2[k]!r} vs {v!r}', case))
            # values flow into results
            for fn, t in ch.tasks.items():
                term = w.decode(t.value, 'json')['term']
                if term != m.term(fn):
                    res.violations.append(Violation('config: task computed with unsubstituted or wrong values', f'{vid} {fn}: {term} vs {m.term(fn)}', case))
        # placeholders in the strings the library itself consumes: `tasks` / `excluded_tasks` import strings
        for field, spec in (('tasks', ['{PKG}.A', '{PKG}.B']), ('tasks+excluded', ['{PKG}.*'])):
            res.add('evaluations')
            res.add('distinct_nontrivial')
            case = {'kind': 'tasks-placeholder', 'field': field}
            try:
                data = {'tasks': list(spec), 's': 'x'}
                if field == 'tasks+excluded':
                    data['excluded_tasks'] = ['{PKG}.B']
                cfgp = Config(Path(root) / 'data4', name=f'ph_{field}', data=data, global_vars={'PKG': w.modname, 'DIR': '/d', 'N': 1})
                names = sorted(Chain(cfgp).tasks)
                want = ['a', 'b'] if field == 'tasks' else ['a']
                if names != want:
                    res.violations.append(Violation('config: placeholder in a task import string is not honoured', f'{field}: {spec} with PKG={w.modname}: chain tasks {names}, expected {want}', case))
            except Exception as e:  # noqa
                res.violations.append(Violation('config: placeholder in a task import string is not honoured', f'{field}: {spec}: {type(e).__name__}: {e}', case))
        # one caller-owned context whose `uses` names a file through a placeholder, used with two values of the variable
        for form in ('list', 'str', 'file'):
            cdirs = {}
            for tag, val in (('one', 1), ('two', 2)):
                cdirs[tag] = Path(root) / f'ctxdir_{form}_{tag}'
                cdirs[tag].mkdir(exist_ok=True)
                (cdirs[tag] / 'ctx.json').write_text(_json_mod.dumps({'s': f'from-{tag}'}))
            ctx_u = {'uses': ['{CDIR}/ctx.json'] if form == 'list' else '{CDIR}/ctx.json'}
            if form == 'file':
                # the context itself is a FILE (unchanged between the constructions) that names the next one through the placeholder
                fpath = Path(root) / 'ctx_outer.json'
                fpath.write_text(_json_mod.dumps({'uses': '{CDIR}/ctx.json', 'plain': '{DIR}/p'}))
                ctx_u = str(fpath)
            snap_u = copy.deepcopy(ctx_u)
            for tag in ('one', 'two', 'one'):
                res.add('evaluations')
                case = {'kind': 'ctx-uses-reuse', 'form': form, 'tag': tag}
                try:
                    cfgu = Config(Path(root) / 'data7', name=f'u_{form}', data={'tasks': [f'{w.modname}.A'], 's': 'x'}, context=ctx_u, global_vars={'CDIR': str(cdirs[tag]), 'DIR': '/d', 'N': 1})
                    got = str(Chain(cfgu)['a'].params['s'])
                    if got != f'from-{tag}':
                        res.violations.append(Violation('context: `uses` path substituted for an earlier config is used again for a later one', f'{form} form, CDIR={tag}: s={got!r}', case))
                    if form != 'file' and (ctx_u != snap_u or any(type(x) is not str for x in (ctx_u['uses'] if form == 'list' else [ctx_u['uses']]))):
                        res.violations.append(Violation('context: caller-owned context data rewritten by substitution', f'{ctx_u!r}', case))
                except Exception as e:  # noqa
                    res.violations.append(Violation('context: `uses` path substituted for an earlier config is used again for a later one', f'{form}: {type(e).__name__}: {e}', case))
        # one config FILE loaded twice in the process with different global_vars: each load substitutes its own values at every depth
        import json as _json
        fdir = Path(root) / 'cfg6'
        fdir.mkdir(exist_ok=True)
        (fdir / 'merge.json').write_text(_json.dumps({'tasks': [f'{w.modname}.A'], 's': '{DIR}/s', 'nested': ['{DIR}/a', {'k': ['{DIR}/b']}]}))
        (fdir / 'multi.yaml').write_text(_json.dumps({'configs': {'p1': {'main_part': True, 'tasks': [f'{w.modname}.A'], 's': '{DIR}/s', 'nested': [{'k': '{DIR}/b'}]}}}))
        for fname in ('merge.json', 'multi.yaml'):
            for gv_dir in ('/mnt/old', '/mnt/new', '/mnt/old'):
                res.add('evaluations')
                case = {'kind': 'file-twice', 'file': fname, 'dir': gv_dir}
                try:
                    t = Chain(Config(Path(root) / 'data6', fdir / fname, global_vars={'DIR': gv_dir, 'N': 1}))['a']
                    got = [str(t.params['s']), worlds.jsonable(t.params['nested'])]
                    want = [f'{gv_dir}/s', [f'{gv_dir}/a', {'k': [f'{gv_dir}/b']}] if fname == 'merge.json' else [{'k': f'{gv_dir}/b'}]]
                    if got != want:
                        res.violations.append(Violation('config: a file loaded again with other global_vars keeps values of an earlier load', f'{fname} with DIR={gv_dir}: {got}, expected {want}', case))
                except Exception as e:  # noqa
                    res.violations.append(Violation('config: a file loaded again with other global_vars keeps values of an earlier load', f'{fname}: {type(e).__name__}: {e}', case))
        # a Config OBJECT (built with its own global_vars, i.e. prepared once already) listed in `uses` of a config with a context:
        # the context values it receives on the second preparation are substituted too
        for gv in ({'DIR': '/d', 'N': 1}, types.SimpleNamespace(DIR='/d', N=1)):
            res.add('evaluations')
            res.add('distinct_nontrivial')
            case = {'kind': 'used-config-object', 'gv': type(gv).__name__}
            try:
                inner = Config(Path(root) / 'data5', name='inner', namespace='rd', data={'tasks': [f'{w.modname}.A'], 's': 'own-{N}', 'nested': ['{DIR}/own']}, global_vars=gv)
                top = Config(Path(root) / 'data5', name='top_obj', data={'uses': [inner]}, global_vars=gv,
                             context={'for_namespaces': {'rd': {'s': '{DIR}/{UNKNOWN}/ctx', 'nested': ['{DIR}/n', {'k': 'v-{N}'}]}}})
                t = Chain(top)['rd::a']
                got = [str(t.params['s']), worlds.jsonable(t.params['nested'])]
                want = ['/d/{UNKNOWN}/ctx', ['/d/n', {'k': 'v-1'}]]
                if got != want:
                    res.violations.append(Violation('context: values reaching a used Config object are not substituted', f'{got} expected {want}', case))
            except Exception as e:  # noqa
                res.violations.append(Violation('context: values reaching a used Config object are not substituted', f'{type(e).__name__}: {e}', case))
        # one caller-owned context (nested containers with placeholders under for_namespaces) used for two chains with different global_vars
        ctx = {'for_namespaces': {'n': {'nested': ['{DIR}/a', {'k': ['{DIR}/b']}], 's': '{DIR}/s'}}}
        snap = copy.deepcopy(ctx)
        for gv_dir in ('/dev-data', '/prod-data'):
            res.add('evaluations')
            res.add('distinct_nontrivial')
            case = {'kind': 'ctx-reuse', 'dir': gv_dir}
            try:
                import json
                cdir = Path(root) / 'cfg3'
                cdir.mkdir(exist_ok=True)
                (cdir / 'inner.json').write_text(json.dumps({'tasks': [f'{w.modname}.A'], 's': 'x', 'nested': []}))
                (cdir / 'top.json').write_text(json.dumps({'uses': f'{cdir}/inner.json as n'}))
                top = Config(Path(root) / 'data3', cdir / 'top.json', context=ctx, global_vars={'DIR': gv_dir, 'N': 1})
                t = Chain(top)['n::a']
                got = worlds.jsonable(t.params['nested'])
                want = [f'{gv_dir}/a', {'k': [f'{gv_dir}/b']}]
                if got != want or str(t.params['s']) != f'{gv_dir}/s':
                    res.violations.append(Violation('context: values substituted for an earlier chain reach a later chain built from the same context',
                                                    f'global_vars DIR={gv_dir}: nested={got!r} s={str(t.params["s"])!r}, expected {want!r}', case))
                if ctx != snap or any(type(x) is not str for x in [ctx['for_namespaces']['n']['s'], ctx['for_namespaces']['n']['nested'][0]]):
                    res.violations.append(Violation('context: caller-owned context data rewritten by substitution', f'{ctx!r} vs {snap!r}', case))
            except Exception as e:  # noqa
                res.violations.append(Violation('context: reused context cannot be applied', f'{type(e).__name__}: {e}', case))
        # config `uses` with a placeholder path (real global var, not the harness's textual one)
        cdir, cases = _ctx_uses_cases(root)
        base = Path(root) / 'data2'
        with open(os.path.join(cdir, 'used.json'), 'w') as f:
            json.dump({'tasks': [f'{w.modname}.A'], 's': 'S-{N}'}, f)
        for form in (['{CTX}/used.json'], '{CTX}/used.json', ['{CTX}/used.json as q']):
            res.add('evaluations')
            res.add('distinct_nontrivial')
            case = {'kind': 'cfg-uses', 'form': form}
            try:
                cfg = Config(base, name='top', data={'uses': copy.deepcopy(form)}, global_vars={'CTX': cdir, 'N': 5})
                ch = cfg.chain()
                tn = 'q::a' if 'as q' in str(form) else 'a'
                if ch[tn].params.s != 'S-5':
                    res.violations.append(Violation('config: value in a config used through a placeholder path not substituted', f'{form}: {ch[tn].params.s!r}', case))
            except Exception as e:  # noqa
                res.violations.append(Violation(f'config: `uses` path with placeholder not usable ({"list" if isinstance(form, list) else "str"} form)',
                                                f'uses={form!r}: {type(e).__name__}: {e}', case))
        for cname, (ctx, expect) in cases.items():
            res.add('evaluations')
            res.add('distinct_nontrivial')
            case = {'kind': 'ctx-uses', 'case': cname}
            try:
                cfg = Config(base, name='c', data={}, context=copy.deepcopy(ctx), global_vars={'CTX': cdir, 'N': 5})
                for ns, val in expect.items():
                    got = cfg.context.data.get('cv') if ns is None else cfg.context.for_namespaces.get(ns, {}).get('cv')
                    # context values themselves are substituted when applied to a config
                    c2 = Config(base, name='c2', namespace=ns, data={}, context=copy.deepcopy(ctx), global_vars={'CTX': cdir, 'N': 5})
                    got2 = c2.data.get('cv')
                    if got2 != val:
                        res.violations.append(Violation(f'context: value from a context used through a placeholder path wrong ({cname})',
                                                        f'context {ctx}: config in namespace {ns} sees cv={got2!r}, expected {val!r}', case))
            except Exception as e:  # noqa
                res.violations.append(Violation(f'context: `uses` path with placeholder not usable ({cname})', f'context {ctx}: {type(e).__name__}: {e}', case))
    finally:
        w.dispose()
        scratch.drop(root)
    return res


def run(tier, seed):
    strings = _strings(tier)
    n = 64
    k = seed % n
    shards = [strings[i::n] for i in range(n)]
    shards = shards[k:] + shards[:k]
    res = Result()
    for r in pmap(_shard_a, [(sh, True) for sh in shards]):
        res.merge(r)
    res.coverage['strings'] = len(strings)
    res.coverage['states'] = len(strings) * len(gv_menu())
    res.merge(_part_b(tier))
    res.merge(_attr_names_leg())
    res.coverage['traces_validated_against_impl'] = res.coverage['evaluations']
    res.coverage['exhaustive'] = True
    res.coverage['rule'] = (f'every string of length <= {5 if tier == "quick" else 7} over {ALPHABET} plus newline/long/unicode cases x {len(gv_menu())} global_vars (dict, object, module) '
                            'alone and in 5 container shapes (depth 1-3) against an independent tokenizer, + idempotence, str behaviour, repr after copy/deepcopy; Part B through real '
                            'Config/Context/Chain objects; distinct_nontrivial = (string, vars) pairs whose text actually changes')
    res.sample({'string': '{A}/x/{UNDEF}/{B}', 'vars': 'AB', 'reference': ref_sub('{A}/x/{UNDEF}/{B}', {'A': 'a', 'B': 'b'})[0]})
    res.assumptions += ['`{{A}}` is read as the undefined name `{A` followed by `}` (code and reference agree; documentation is silent)', 'tuples/sets are outside JSON-like data']
    return res


def replay(case):
    import tcv

    tcv.quiet_library()
    if case['kind'] == 'attr-names':
        return _attr_names_leg().violations
    if case['kind'] == 'fn':
        from taskchain.utils.data import search_and_replace_placeholders as fn
        gv = dict(gv_menu())[case['gv']]
        bad = check_string(case['s'], case['gv'], gv, fn) + check_container(case['s'], case['gv'], gv, fn)
        return [Violation(f'search_and_replace_placeholders {k}', m, case) for k, m in bad]
    r = _part_b('quick')
    return [v for v in r.violations if v.case == case]
