"""C01 - a chain never returns a stale or foreign result.

All histories (chain constructions from config variants that share ONE data directory, value requests on every task,
forcing, injected failures, restarts) up to a depth; every returned value is decoded to its provenance term and compared
with the reference evaluation of the requesting chain's own configuration.
"""
from tcv import families, histories, specs
from tcv.core import Result, Violation
from tcv.pool import pmap


def judge(desc, spec):
    def j(i, obs, exp, ex):
        op = obs['op']
        out = []
        hist = [o['op'] for o, _ in ex.steps]
        case = {'world': desc['name'], 'hist': hist}
        if op[0] == 'new':
            if obs['error'] and not exp['error']:
                out.append(Violation(f'{desc["name"]}: construction of a valid configuration failed', f'{hist}: {obs["error"]}', case))
        elif op[0] == 'value':
            fn = op[2]
            if obs['error'] is None:
                if obs['term'] != ex.model.slots[op[1]]['model'].term(fn):
                    want = ex.model.slots[op[1]]['model'].term(fn)
                    out.append(Violation(
                        f'{desc["name"]}: wrong value returned for {_strip(fn)}',
                        f'history {hist}: value of `{fn}` is {obs["term"]} but the configuration ({op}) yields {want}', case))
            else:
                if not (exp.get('error') and obs.get('fault')):
                    out.append(Violation(
                        f'{desc["name"]}: value request failed ({obs["error"].split(":")[0]})',
                        f'history {hist}: requesting `{fn}` raised {obs["error"]} although no failure is injected for a task that has to run\n{obs.get("tb", "")}', case))
        return out
    return j


def _strip(fn):
    return fn


WORLDS_QUICK = ['chain3', 'mount2', 'mount2p', 'uses2', 'parts_ext', 'optns', 'longval', 'ctxshare', 'chain3mem']
WORLDS_ALL = ['chain3', 'diamond', 'mount2', 'mount2p', 'uses2', 'parts_ext', 'optns', 'longval', 'ctxshare', 'chain3mem', 'parts', 'optpat', 'ctxmove', 'types_line']


def plan(tier):
    out = []
    for name in (WORLDS_QUICK if tier == 'quick' else WORLDS_ALL):
        if name == 'chain3mem':
            # an in-memory task in the middle, failures of it and of its input, retries on the SAME chain object
            desc = families.chain3(kinds=('list_of_numpy', 'inmemory', 'json'))
            desc['name'] = 'chain3mem'
            sp = specs.build(desc, ops=('new', 'value', 'fail', 'restart'), slots=1, faults=[('A', 'raise'), ('B', 'raise')], max_faults=1)
            sp['variants'] = sp['variants'][:2]
            out.append((desc, sp, 3, 5))
            continue
        desc = families.ALL[name]()
        if name == 'chain3':
            desc = families.chain3(run='args')  # inputs and parameters reach run() as arguments
            desc['_shared_cfg'] = True          # variants are edits of one config file in place
        faults = [(k, 'raise') for k in list(desc['tasks'])[:2]]
        if name == 'types_line':
            sp = specs.build(desc, ops=('new', 'value', 'tforce', 'restart'), slots=1, tasks=['t0', 't5', 't8', 't10', 't11'], delete_flags=(False,), force_tasks=None)
            d0, d1 = (2, 3) if tier == 'quick' else (3, 4)
        else:
            deep = name in ('chain3', 'mount2', 'parts_ext')
            sp = specs.build(desc, ops=('new', 'value', 'tforce', 'fail', 'restart'), slots=2 if (tier != 'quick' and deep) else 1, faults=faults,
                             delete_flags=(False,) if (tier == 'quick' or not deep) else (False, True), max_faults=1)
            d0, d1 = (3, 4) if (tier == 'quick' or not deep) else (3, 5)
            if tier != 'quick':
                sp['variants'] = sp['variants'][:3] if deep else sp['variants'][:4]
        if name == 'ctxshare':
            sp = specs.build(desc, ops=('new', 'value', 'restart'), slots=2)
            d0, d1 = 3, 4
        if tier == 'quick':
            sp['variants'] = sp['variants'][:3] if name not in ('chain3', 'longval') else [v for v in sp['variants'] if v in ('v0', 'v1', 'vnull', 'vmid', 'vtext', 'vtext2')]
        out.append((desc, sp, d0, d1))
    return out


def run(tier, seed):
    res = Result()
    for desc, sp, d0, d1 in plan(tier):
        r = histories.explore(desc, sp, 'tcv.checks.c01:judge', d0, d1, seed=seed)
        cov = r.coverage
        res.coverage.setdefault('per_world', {})[desc['name']] = dict(states=cov['states'], transitions=cov['transitions'], executions=cov['executions'],
                                                                      stateless_depth=d0, merged_depth=cov['depth_completed'],
                                                                      distinct_observation_vectors=cov['distinct_observation_vectors'])
        res.add('states', cov['states'])
        res.add('transitions', cov['transitions'])
        res.add('evaluations', cov['executions'])
        res.add('distinct_nontrivial', cov['distinct_observation_vectors'])
        res.violations.extend(r.violations)
        res.sample({'world': desc['name'], 'alphabet_after_new': histories.alphabet(desc, [['new', 0, sp['variants'][0]]], sp)[:8]})
    # real interpreter boundaries: every sequence of <= k segments, each segment in its own fresh process on one data directory
    from tcv import procleg
    for wname, variants, tasks in (('chain3', ['v0', 'v1'], ['a', 'c']), ('mount2', ['v12', 'v21'], ['n2::y', 'z'])):
        if tier == 'quick' and wname == 'chain3':
            continue  # quick: one world, 20 histories / 36 interpreter starts
        desc = families.ALL[wname]()
        r = procleg.run_leg('C01', desc, variants if tier == 'quick' else list(desc['variants'])[:3], tasks, 2 if tier == 'quick' else 3, seed)
        res.coverage.setdefault('process_leg', {})[wname] = dict(histories=r.coverage.get('process_histories', 0), interpreter_starts=r.coverage.get('interpreter_starts', 0))
        res.add('evaluations', r.coverage.get('evaluations', 0))
        res.add('transitions', r.coverage.get('transitions', 0))
        res.violations.extend(r.violations)
    res.coverage['traces_validated_against_impl'] = res.coverage['evaluations']
    res.coverage['exhaustive'] = True
    res.coverage['rule'] = ('per world: every history over {new(slot,variant), value(slot,task), task force, fail(task), restart} up to the stateless depth, '
                            'then BFS with canonical-state merging to the merged depth; every history is replayed on the real library on a fresh store; '
                            'distinct_nontrivial = distinct observation vectors (values returned, runs, errors) over all histories')
    res.assumptions += ['task computations are the deterministic generated run() bodies (provenance terms)',
                        'the reference evaluator tcv/refmodel.py defines the expected value of every task of every variant']
    return res


def replay(case):
    import tcv

    tcv.quiet_library()
    if case.get('kind') == 'proc':
        from tcv import procleg
        from tcv.core import Violation as V
        vs, n = procleg._job((families.ALL[case['world']](), case['segs'], 'C01', 0))
        return [V(v['signature'], v['what'], v['case']) for v in vs]
    if case['world'] == 'chain3mem':
        desc = families.chain3(kinds=('list_of_numpy', 'inmemory', 'json'))
        desc['name'] = 'chain3mem'
    else:
        desc = families.ALL[case['world'] if case['world'] != 'types' else 'types_line']()
    if case['world'] == 'chain3':
        desc = families.chain3(run='args')
        desc['_shared_cfg'] = True
    sp = specs.build(desc, ops=('new',))
    vs, c, ov = histories.run_history(desc, case['hist'], judge(desc, sp))
    return vs
