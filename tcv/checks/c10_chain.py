"""C10 part B - the same resolution answers through real chains and a dependant's input registry."""
import itertools

from tcv import names as N
from tcv import families, scratch, worlds
from tcv.core import Result, Violation
from tcv.pool import pmap

NS = ['', 'n', 'xn']
GROUPS = ['', 'g', 'xg']
NAMES = ['a', 'xa']
UNIVERSE = [N.make(ns, g, n) for ns in NS for g in GROUPS for n in NAMES]
QUERIES = sorted({q for f in UNIVERSE for q in N.forms(f)}, key=lambda s: (len(s), s))
# names outside [a-z]+: leading / trailing underscores, digits (all valid identifiers, so attribute access applies)
ODD_UNIVERSE = [N.make(ns, g, n) for ns in ('', 'n') for g in ('', 'g') for n in ('_raw', '__h', 'a_', 'a1')]
ODD_QUERIES = sorted({q for f in ODD_UNIVERSE for q in N.forms(f)}, key=lambda s: (len(s), s))


def world_for(name_set, reverse=False):
    tasks = {}
    by_ns = {}
    for full in name_set:
        ns, g, n = N.parse(full)
        key = 'C' + ''.join(x.capitalize() for x in g) + n.capitalize()
        tasks[key] = {'name': n, 'group': ':'.join(g) or None, 'params': [], 'inputs': [], 'data': 'json'}
        by_ns.setdefault('::'.join(ns), []).append(key)
    tasks['ZDep'] = {'name': 'dep', 'group': None, 'params': [], 'inputs': [{'how': 'name', 'ref': f} for f in (reversed(name_set) if reverse else name_set)], 'data': 'json'}
    cfgs = {}
    uses = []
    for ns, keys in sorted(by_ns.items(), reverse=reverse):
        if ns:
            cfgs[f'cfg_{ns}'] = {'medium': 'json', 'tasks': list(reversed(keys)) if reverse else keys, 'values': {}}
            uses.append({'config': f'cfg_{ns}', 'as': ns})
    root_keys = by_ns.get('', [])
    cfgs['top'] = {'medium': 'json', 'tasks': (['ZDep'] + root_keys) if reverse else (root_keys + ['ZDep']), 'values': {}, 'uses': uses}
    return {'name': 'names', 'tasks': tasks, 'configs': cfgs, 'root': 'top', 'variants': {'v': []}}


def check_set(name_set, queries=None):
    queries = queries or QUERIES
    out = []
    evals = 0
    answers = {}
    for reverse in (False, True):
        desc = world_for(name_set, reverse)
        root = scratch.fresh('c10')
        w = worlds.World(desc, root)
        try:
            try:
                ch = w.chain('v', base_dir=root + '/data')
            except Exception as e:  # noqa
                # a dependant naming all members must be constructible: every member is addressed by its full name
                out.append(Violation('chain: dependant addressing its inputs by full name cannot be built', f'names {list(name_set)} (reverse={reverse}): {type(e).__name__}: {e}',
                                     {'kind': 'chain', 'names': list(name_set)}))
                continue
            all_names = list(name_set) + ['dep']
            dep = ch.tasks['dep']
            for q in queries + ['dep']:
                for where, names in (('chain', all_names), ('inputs', list(name_set))):
                    exp = N.resolve(q, names)
                    evals += 1
                    got = _access(ch, dep, where, q)
                    answers.setdefault((where, q), set()).add(repr(got))
                    if exp == N.UNSPECIFIED:
                        continue
                    ok_target = (isinstance(got['item'], tuple) and exp in got['item']) if exp not in (N.AMBIGUOUS, N.NOTFOUND) else got['item'] in ('KeyError', None)
                    ok_in = got['in'] == (exp not in (N.AMBIGUOUS, N.NOTFOUND))
                    if not ok_target or not ok_in or got['get'] != got['item'] or (got.get('attr', got['item']) != got['item']):
                        out.append(Violation(f'{where}: name resolution through the {"chain" if where == "chain" else "input registry"} differs from the reference',
                                             f'tasks {all_names if where == "chain" else list(name_set)}, query {q!r}: [] -> {got["item"]}, in -> {got["in"]}, get -> {got["get"]}, attr -> {got.get("attr")}; reference {exp}',
                                             {'kind': 'chain', 'names': list(name_set)}))
        finally:
            w.dispose()
            scratch.drop(root)
    for (where, q), s in answers.items():
        if len(s) > 1:
            out.append(Violation(f'{where}: resolution depends on declaration order', f'tasks {list(name_set)} query {q!r}: {s}', {'kind': 'chain', 'names': list(name_set)}))
    return evals, out


def _access(ch, dep, where, q):
    """answers as NAMES: a returned task object is reported as the set of names under which the chain holds that very
    object (identical computations are legitimately one shared object carrying one of its names)"""
    obj = ch if where == 'chain' else dep.input_tasks
    table = ch.tasks if where == 'chain' else {k: v for k, v in dep.input_tasks.items()}

    def names_of(t):
        if t is None:
            return None
        return tuple(sorted(k for k, v in table.items() if v is t)) or ('<unknown object>',)
    r = {}
    for how in ('item', 'get') + (('attr',) if where == 'chain' and q.isidentifier() else ()):
        try:
            t = obj[q] if how == 'item' else (obj.get(q) if how == 'get' else getattr(ch, q))
            r[how] = names_of(t)
        except (KeyError, AttributeError) as e:
            r[how] = 'KeyError' if isinstance(e, KeyError) or how == 'attr' else type(e).__name__
        except Exception as e:  # noqa
            r[how] = type(e).__name__
    try:
        r['in'] = q in obj
    except Exception as e:  # noqa
        r['in'] = type(e).__name__
    return r


def nested_worlds():
    """a dependant that lives in a (nested) namespace and addresses its input by the input's FULL name / shorter forms"""
    out = []
    for ns_path in (['n'], ['o', 'n'], ['o', 'n', 'm']):
        full_ns = '::'.join(ns_path)
        # plain names: 'x'; names that textually begin with the (outermost / innermost) namespace name or equal it - a reference is
        # qualified by its '::' components, never by a textual prefix (seed C10_o)
        for base in ('x', f'{ns_path[0]}x', f'{ns_path[-1]}umbers', ns_path[0]):
            for group in (None, 'g', 'g:h'):
                local = f'{group}:{base}' if group else base
                for ref in dict.fromkeys((f'{full_ns}::{local}', f'{full_ns}::{base}', local, base)):
                    tasks = {'X': {'name': base, 'group': group, 'params': [], 'inputs': [], 'data': 'json'},
                             'D': {'name': 'd', 'group': None, 'params': [], 'inputs': [{'how': 'name', 'ref': ref}], 'data': 'json'}}
                    cfgs = {'pipe': {'medium': 'json', 'tasks': ['X', 'D'], 'values': {}}}
                    prev = 'pipe'
                    for i, ns in enumerate(reversed(ns_path)):
                        cfgs[f'w{i}'] = {'medium': 'json', 'tasks': [], 'values': {}, 'uses': [{'config': prev, 'as': ns}]}
                        prev = f'w{i}'
                    out.append(({'name': 'nested-names', 'tasks': tasks, 'configs': cfgs, 'root': prev, 'variants': {'v': []}}, full_ns, local, ref, base))
    return out


def check_nested():
    res = Result()
    for desc, full_ns, local, ref, base in nested_worlds():
        root = scratch.fresh('c10n')
        w = worlds.World(desc, root)
        res.add('evaluations')
        res.add('chain_worlds')
        case = {'kind': 'nested', 'ref': ref, 'ns': full_ns, 'local': local, 'base': base}
        try:
            try:
                ch = w.chain('v', base_dir=root + '/data')
            except Exception as e:  # noqa
                res.violations.append(Violation('inputs: a dependant cannot address its input by full name / unique shorter form inside a nested namespace',
                                                f'namespace {full_ns}, input task {local}, referenced as {ref!r}: {type(e).__name__}: {e}', case))
                continue
            target = ch.tasks[f'{full_ns}::{local}']
            d = ch.tasks[f'{full_ns}::d']
            got = [t for t in d.input_tasks.values()]
            if len(got) != 1 or got[0] is not target:
                res.violations.append(Violation('inputs: reference resolved to another task', f'namespace {full_ns}, reference {ref!r}: {[getattr(t, "fullname", t) for t in got]}', case))
            for q in dict.fromkeys((f'{full_ns}::{local}', f'{full_ns}::{base}', local, base)):
                try:
                    ok = not (ch[q] is not target or q not in ch or d.input_tasks[q] is not target or q not in d.input_tasks)
                except Exception:  # noqa  (a lookup that raises does not address the task either)
                    ok = False
                if not ok:
                    res.violations.append(Violation('chain/inputs: nested-namespace task not addressable by full or shorter name', f'namespace {full_ns}, task {local}, query {q!r}', case))
        finally:
            w.dispose()
            scratch.drop(root)
    return res


def check_shared_mounts():
    """ONE pipeline (x -> d) mounted twice, `as n1` and `as n2`: with equal values the two mountings are one computation (the task
    objects are shared), with different values they are not. Either way every task is addressable from the chain and from its
    dependant's inputs by its full name in EITHER mounting and by the short form."""
    res = Result()
    for equal in (True, False):
        tasks = {'X': {'name': 'x', 'params': [families.P('px', default=0)], 'inputs': [], 'data': 'json'},
                 'D': {'name': 'd', 'params': [], 'inputs': [{'how': 'name', 'ref': 'x'}], 'data': 'json'}}
        desc = {'name': 'shared-mounts', 'tasks': tasks,
                'configs': {'pipe': {'medium': 'json', 'tasks': ['X', 'D'], 'values': {}},
                            'top': {'medium': 'json', 'tasks': [], 'values': {}, 'uses': [{'config': 'pipe', 'as': 'n1'}, {'config': 'pipe', 'as': 'n2'}]}},
                'root': 'top', 'variants': {'v': []}}
        if not equal:
            desc['context'] = {'kind': 'dict', 'data': {}, 'for_namespaces': {'n1': {'px': 1}, 'n2': {'px': 2}}}
        root = scratch.fresh('c10s')
        w = worlds.World(desc, root)
        res.add('evaluations')
        res.add('chain_worlds')
        case = {'kind': 'shared-mounts', 'equal': equal}
        try:
            ch = w.chain('v', base_dir=root + '/data')
            for ns in ('n1', 'n2'):
                target, d = ch.tasks[f'{ns}::x'], ch.tasks[f'{ns}::d']
                for q in (f'{ns}::x', 'x'):
                    try:
                        ok = d.input_tasks[q] is target and q in d.input_tasks
                    except Exception:  # noqa
                        ok = False
                    if not ok:
                        res.violations.append(Violation('shared-mounts: input not addressable from its dependant by its full name',
                                                        f'pipeline x -> d mounted as n1 and n2 with {"equal" if equal else "different"} values: {ns}::d.input_tasks[{q!r}] '
                                                        f'does not give {ns}::x (keys {list(d.input_tasks.keys())})', case))
        except Exception as e:  # noqa
            res.violations.append(Violation('shared-mounts: chain cannot be built', f'{type(e).__name__}: {e}', case))
        finally:
            w.dispose()
            scratch.drop(root)
    return res


_CONC_PLANS = [([('item', 'x')], [('item', 'y'), ('in', 'y')]),          # 'x' is ambiguous (g:x, h:x), 'y' resolves to the less nested `y`
               ([('in', 'g:y')], [('item', 'x'), ('get', 'h:x')]),
               ([('attr', 'y')], [('attr', 'y'), ('in', 'zz')])]


def _conc_job(args):
    """one plan, the subtree of schedules below `root` (root=None: the default schedule only; returns the subtree roots)"""
    import tempfile
    from pathlib import Path
    import tcv
    import taskchain.chain as tchain
    import taskchain.task as ttask
    from taskchain import Config, Task
    from tcv import sched

    tcv.quiet_library()
    pi, bound, root = args
    pa, pb = _CONC_PLANS[pi]

    class X(Task):
        class Meta:
            task_group = 'g'
            name = 'x'

        def run(self) -> int:
            return 1

    class X2(Task):
        class Meta:
            task_group = 'h'
            name = 'x'

        def run(self) -> int:
            return 2

    class Y(Task):
        def run(self) -> int:
            return 3

    class GY(Task):
        class Meta:
            task_group = 'g'
            name = 'y'

        def run(self) -> int:
            return 4

    res = Result()
    files = (tchain.__file__, ttask.__file__)

    def ask(ch, how, q):
        try:
            if how == 'in':
                return q in ch
            t = ch[q] if how == 'item' else (ch.get(q) if how == 'get' else getattr(ch, q))
            return None if t is None else t.fullname
        except (AttributeError, KeyError):
            return 'KeyError'   # attribute access reports a missing / ambiguous name its own way
        except Exception as e:  # noqa
            return type(e).__name__

    base = Path(tempfile.mkdtemp(prefix='c10c', dir=scratch.root()))
    roots = []
    try:
        seq = Config(base, name='c', data={'tasks': [X, X2, Y, GY]}).chain()
        want = {'A': [ask(seq, h, q) for h, q in pa], 'B': [ask(seq, h, q) for h, q in pb]}

        def make_run(choices):
            ch = Config(base, name='c', data={'tasks': [X, X2, Y, GY]}).chain()
            bodies = [(n, (lambda plan=plan: [ask(ch, h, q) for h, q in plan]), None) for n, plan in (('A', pa), ('B', pb))]
            return sched.Run(str(base), bodies, choices, horizon=20000, trace_files=files).execute()

        if root is None:
            first = make_run([])
            roots = sched.children(first, 0, bound)
            runs = [first]
        else:
            runs = sched.explore(make_run, bound, root=root)
        outcomes = set()
        for r in runs:
            res.add('evaluations')
            res.add('schedules')
            res.add('transitions', len(r.points))
            got = {w.name: (w.result[1] if w.result[0] == 'ok' else repr(w.result)) for w in r.workers}
            outcomes.add(repr(got))
            if got != want:
                res.violations.append(Violation('concurrent lookups: answer differs from the sequential one',
                                                f'threads A {pa} and B {pb} on one fresh chain, schedule {[p["chosen"] for p in r.points if p["n"] > 1]}: {got}, sequentially {want}',
                                                {'kind': 'concurrent', 'bound': bound}))
                break
        res.coverage['conc_outcomes'] = sorted(outcomes)
    finally:
        import shutil
        shutil.rmtree(base, ignore_errors=True)
    return res, roots


def check_concurrent_lookups(bound=1):
    """lookups only read: two threads that address tasks of ONE freshly built chain at the same time get the answers a single
    thread gets. Every interleaving of the two threads at SOURCE-LINE granularity inside taskchain/chain.py and task.py with at most
    `bound` preemptions (tcv/sched.py, stateless DFS, subtrees in parallel); a fresh chain per execution, so the very first lookup is
    raced too."""
    res = Result()
    jobs = []
    outcomes = set()
    # bound 2 costs ~13k executions per plan: the first plan (first-ever lookup raced by a short and an ambiguous query) gets it
    bounds = [bound] + [min(bound, 1)] * (len(_CONC_PLANS) - 1)
    for pi, (r, roots) in enumerate(pmap(_conc_job, [(pi, bounds[pi], None) for pi in range(len(_CONC_PLANS))])):
        outcomes |= set(r.coverage.pop('conc_outcomes', []))
        res.merge(r)
        jobs += [(pi, bounds[pi], root) for root in roots]
    for r, _ in pmap(_conc_job, jobs, chunksize=4):
        outcomes |= set(r.coverage.pop('conc_outcomes', []))
        res.merge(r)
    res.coverage.pop('conc_outcomes', None)
    res.add('distinct_outcomes', len(outcomes))
    res.coverage['concurrent_lookups'] = {'plans': len(_CONC_PLANS), 'preemption_bound_per_plan': bounds, 'granularity': 'source line in chain.py / task.py'}
    return res


RUNARG_SETS = [('g:x', 'h:g:x'), ('x', 'n::x'), ('x', 'g:x'), ('n::x', 'xn::x'), ('g:x', 'xg:x'), ('n::g:x', 'n::x'), ('x', 'n::x', 'n::g:x'), ('n::x', 'm::x'), ('g:x', 'h:x')]


def check_run_arguments():
    """a dependant whose run() takes the bare name as an ARGUMENT while several of its inputs end in that name: the value injected is the
    one of the task the short form resolves to among its inputs (less-nested rule), an ambiguous short form fails instead of picking one,
    whatever the order in which the inputs are declared"""
    import tcv

    tcv.quiet_library()
    from pathlib import Path
    from taskchain import Config, Task

    res = Result()
    for names in RUNARG_SETS:
        for order in (names, tuple(reversed(names))):
            res.add('evaluations')
            res.add('transitions')
            case = {'kind': 'runarg', 'names': list(names), 'order': list(order)}
            root = scratch.fresh('c10r')
            try:
                by_ns = {}
                vals = {}
                for full in names:
                    ns, g, n = N.parse(full)
                    meta = type('Meta', (), dict({'name': n}, **({'task_group': ':'.join(g)} if g else {})))
                    val = len(vals) * 10 + 7
                    vals[full] = val
                    src = f'def run(self) -> int:\n    return {val}\n'
                    d = {}
                    exec(src, d)
                    cls = type('P' + ''.join(c for c in full if c.isalnum()), (Task,), {'Meta': meta, 'run': d['run']})
                    by_ns.setdefault('::'.join(ns), []).append(cls)
                d = {}
                exec('def run(self, x) -> int:\n    return x\n', d)
                dep = type('Dep', (Task,), {'Meta': type('Meta', (), {'name': 'dep', 'input_tasks': list(order)}), 'run': d['run']})
                uses = [Config(Path(root) / 'data', name=f'c_{ns}', namespace=ns, data={'tasks': cl}) for ns, cl in sorted(by_ns.items()) if ns]
                top = Config(Path(root) / 'data', name='top', data={'tasks': by_ns.get('', []) + [dep], 'uses': uses})
                exp = N.resolve('x', list(names))
                try:
                    ch = top.chain()
                    got = ('value', ch['dep'].value)
                except Exception as e:  # noqa
                    got = ('error', f'{type(e).__name__}: {e}')
                if exp == N.UNSPECIFIED:
                    continue
                if exp in (N.AMBIGUOUS, N.NOTFOUND):
                    if got[0] == 'value':
                        res.violations.append(Violation('chain: ambiguous run argument silently bound to one of the inputs',
                                                        f'inputs {list(order)}, run(self, x): got the value of {[k for k, v in vals.items() if v == got[1]]}, `x` is ambiguous among the inputs', case))
                elif got != ('value', vals[exp]):
                    res.violations.append(Violation('chain: run argument bound to another input than the one its name resolves to',
                                                    f'inputs {list(order)}, run(self, x): {got}, `x` resolves to {exp} (value {vals[exp]})', case))
            finally:
                scratch.drop(root)
    return res


def check_optional_ambiguous():
    """an OPTIONAL input given by a short form: exactly one candidate (or a less-nested one) -> wired; none -> the default; several that
    the rule cannot order -> an error at construction, not silently the default"""
    import tcv

    tcv.quiet_library()
    from pathlib import Path
    from taskchain import Config, Task
    from taskchain.parameter import InputTaskParameter

    res = Result()
    for names in RUNARG_SETS + [('g:y',), ('n::y',)]:
        res.add('evaluations')
        res.add('transitions')
        case = {'kind': 'optamb', 'names': list(names)}
        root = scratch.fresh('c10o')
        try:
            by_ns, vals = {}, {}
            for full in names:
                ns, g, n = N.parse(full)
                meta = type('Meta', (), dict({'name': n}, **({'task_group': ':'.join(g)} if g else {})))
                vals[full] = len(vals) * 10 + 7
                d = {}
                exec(f'def run(self) -> int:\n    return {vals[full]}\n', d)
                by_ns.setdefault('::'.join(ns), []).append(type('P' + ''.join(c for c in full if c.isalnum()), (Task,), {'Meta': meta, 'run': d['run']}))
            d = {}
            exec('def run(self) -> int:\n    v = self.input_tasks["x"]\n    return v.value if hasattr(v, "value") else v\n', d)
            dep = type('Dep', (Task,), {'Meta': type('Meta', (), {'name': 'dep', 'parameters': [InputTaskParameter('x', default=-1)]}), 'run': d['run']})
            uses = [Config(Path(root) / 'data', name=f'c_{ns}', namespace=ns, data={'tasks': cl}) for ns, cl in sorted(by_ns.items()) if ns]
            top = Config(Path(root) / 'data', name='top', data={'tasks': by_ns.get('', []) + [dep], 'uses': uses})
            exp = N.resolve('x', list(names), determine_namespace=False)
            try:
                got = ('value', top.chain()['dep'].value)
            except Exception as e:  # noqa
                got = ('error', f'{type(e).__name__}: {e}')
            if exp == N.UNSPECIFIED:
                continue
            if exp == N.AMBIGUOUS and got[0] == 'value':
                res.violations.append(Violation('chain: ambiguous optional input silently replaced by its default (or by one of the candidates)',
                                                f'tasks {list(names)}, optional input `x` (default -1) of a root-level task: chain built, value {got[1]}', case))
            elif exp == N.NOTFOUND and got != ('value', -1):
                res.violations.append(Violation('chain: optional input without any candidate does not take its default', f'tasks {list(names)}: {got}', case))
            elif exp not in (N.AMBIGUOUS, N.NOTFOUND) and got != ('value', vals[exp]):
                res.violations.append(Violation('chain: optional input bound to another task than the one its name resolves to', f'tasks {list(names)}: {got}, `x` resolves to {exp}', case))
        finally:
            scratch.drop(root)
    return res


def _job(sets):
    import tcv

    tcv.quiet_library()
    res = Result()
    for s in sets:
        ev, vs = check_set(s, ODD_QUERIES if s[0] in ODD_UNIVERSE else None)
        res.add('evaluations', ev)
        res.add('transitions', ev)
        res.add('chain_worlds')
        res.violations.extend(vs[:2])
    return res


def run(tier, seed):
    sets = [s for k in (1, 2) for s in itertools.combinations(UNIVERSE, k)]
    triples = list(itertools.combinations(UNIVERSE, 3))
    sets += triples if tier != 'quick' else triples[seed % 7::7]
    sets += [s for k in (1, 2) for s in itertools.combinations(ODD_UNIVERSE, k)]
    res = Result()
    n = 64
    for r in pmap(_job, [sets[i::n] for i in range(n)]):
        res.merge(r)
    res.merge(check_nested())
    res.merge(check_run_arguments())
    res.merge(check_optional_ambiguous())
    res.merge(check_shared_mounts())
    res.merge(check_concurrent_lookups(1 if tier == 'quick' else 2))
    res.coverage['chain_leg'] = {'name_sets': len(sets), 'universe': len(UNIVERSE), 'queries': len(QUERIES) + 1, 'triples_complete': tier != 'quick'}
    return res


def replay(case):
    if case.get('kind') == 'concurrent':
        return check_concurrent_lookups(case['bound']).violations
    if case.get('kind') == 'shared-mounts':
        return [v for v in check_shared_mounts().violations if v.case == case]
    if case.get('kind') == 'optamb':
        return [v for v in check_optional_ambiguous().violations if v.case == case]
    if case.get('kind') == 'runarg':
        return [v for v in check_run_arguments().violations if v.case == case]
    if case.get('kind') == 'nested':
        return [v for v in check_nested().violations if v.case == case]
    ev, vs = check_set(tuple(case['names']), ODD_QUERIES if case['names'][0] in ODD_UNIVERSE else None)
    return vs
