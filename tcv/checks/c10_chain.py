from tcv.core import Result


def run(tier, seed):
    return Result()


def replay(case):
    return []
