"""C10 part B - the same resolution answers through real chains and a dependant's input registry."""
import itertools

from tcv import names as N
from tcv import scratch, worlds
from tcv.core import Result, Violation
from tcv.pool import pmap

NS = ['', 'n', 'xn']
GROUPS = ['', 'g', 'xg']
NAMES = ['a', 'xa']
UNIVERSE = [N.make(ns, g, n) for ns in NS for g in GROUPS for n in NAMES]
QUERIES = sorted({q for f in UNIVERSE for q in N.forms(f)}, key=lambda s: (len(s), s))


def world_for(name_set, reverse=False):
    tasks = {}
    by_ns = {}
    for full in name_set:
        ns, g, n = N.parse(full)
        key = 'C' + ''.join(x.capitalize() for x in g) + n.capitalize()
        tasks[key] = {'name': n, 'group': ':'.join(g) or None, 'params': [], 'inputs': [], 'data': 'json'}
        by_ns.setdefault('::'.join(ns), []).append(key)
    tasks['ZDep'] = {'name': 'dep', 'group': None, 'params': [], 'inputs': [{'how': 'name', 'ref': f} for f in (reversed(name_set) if reverse else name_set)], 'data': 'json'}
    cfgs = {}
    uses = []
    for ns, keys in sorted(by_ns.items(), reverse=reverse):
        if ns:
            cfgs[f'cfg_{ns}'] = {'medium': 'json', 'tasks': list(reversed(keys)) if reverse else keys, 'values': {}}
            uses.append({'config': f'cfg_{ns}', 'as': ns})
    root_keys = by_ns.get('', [])
    cfgs['top'] = {'medium': 'json', 'tasks': (['ZDep'] + root_keys) if reverse else (root_keys + ['ZDep']), 'values': {}, 'uses': uses}
    return {'name': 'names', 'tasks': tasks, 'configs': cfgs, 'root': 'top', 'variants': {'v': []}}


def check_set(name_set):
    out = []
    evals = 0
    answers = {}
    for reverse in (False, True):
        desc = world_for(name_set, reverse)
        root = scratch.fresh('c10')
        w = worlds.World(desc, root)
        try:
            try:
                ch = w.chain('v', base_dir=root + '/data')
            except Exception as e:  # noqa
                # a dependant naming all members must be constructible: every member is addressed by its full name
                out.append(Violation('chain: dependant addressing its inputs by full name cannot be built', f'names {list(name_set)} (reverse={reverse}): {type(e).__name__}: {e}',
                                     {'kind': 'chain', 'names': list(name_set)}))
                continue
            all_names = list(name_set) + ['dep']
            dep = ch.tasks['dep']
            for q in QUERIES + ['dep']:
                for where, names in (('chain', all_names), ('inputs', list(name_set))):
                    exp = N.resolve(q, names)
                    evals += 1
                    got = _access(ch, dep, where, q)
                    answers.setdefault((where, q), set()).add(repr(got))
                    if exp == N.UNSPECIFIED:
                        continue
                    ok_target = (isinstance(got['item'], tuple) and exp in got['item']) if exp not in (N.AMBIGUOUS, N.NOTFOUND) else got['item'] in ('KeyError', None)
                    ok_in = got['in'] == (exp not in (N.AMBIGUOUS, N.NOTFOUND))
                    if not ok_target or not ok_in or got['get'] != got['item'] or (got.get('attr', got['item']) != got['item']):
                        out.append(Violation(f'{where}: name resolution through the {"chain" if where == "chain" else "input registry"} differs from the reference',
                                             f'tasks {all_names if where == "chain" else list(name_set)}, query {q!r}: [] -> {got["item"]}, in -> {got["in"]}, get -> {got["get"]}, attr -> {got.get("attr")}; reference {exp}',
                                             {'kind': 'chain', 'names': list(name_set)}))
        finally:
            w.dispose()
            scratch.drop(root)
    for (where, q), s in answers.items():
        if len(s) > 1:
            out.append(Violation(f'{where}: resolution depends on declaration order', f'tasks {list(name_set)} query {q!r}: {s}', {'kind': 'chain', 'names': list(name_set)}))
    return evals, out


def _access(ch, dep, where, q):
    """answers as NAMES: a returned task object is reported as the set of names under which the chain holds that very
    object (identical computations are legitimately one shared object carrying one of its names)"""
    obj = ch if where == 'chain' else dep.input_tasks
    table = ch.tasks if where == 'chain' else {k: v for k, v in dep.input_tasks.items()}

    def names_of(t):
        if t is None:
            return None
        return tuple(sorted(k for k, v in table.items() if v is t)) or ('<unknown object>',)
    r = {}
    for how in ('item', 'get') + (('attr',) if where == 'chain' and q.isidentifier() else ()):
        try:
            t = obj[q] if how == 'item' else (obj.get(q) if how == 'get' else getattr(ch, q))
            r[how] = names_of(t)
        except (KeyError, AttributeError) as e:
            r[how] = 'KeyError' if isinstance(e, KeyError) or how == 'attr' else type(e).__name__
        except Exception as e:  # noqa
            r[how] = type(e).__name__
    try:
        r['in'] = q in obj
    except Exception as e:  # noqa
        r['in'] = type(e).__name__
    return r


def _job(sets):
    import tcv

    tcv.quiet_library()
    res = Result()
    for s in sets:
        ev, vs = check_set(s)
        res.add('evaluations', ev)
        res.add('transitions', ev)
        res.add('chain_worlds')
        res.violations.extend(vs[:2])
    return res


def run(tier, seed):
    sets = [s for k in (1, 2) for s in itertools.combinations(UNIVERSE, k)]
    triples = list(itertools.combinations(UNIVERSE, 3))
    sets += triples if tier != 'quick' else triples[seed % 7::7]
    res = Result()
    n = 64
    for r in pmap(_job, [sets[i::n] for i in range(n)]):
        res.merge(r)
    res.coverage['chain_leg'] = {'name_sets': len(sets), 'universe': len(UNIVERSE), 'queries': len(QUERIES) + 1, 'triples_complete': tier != 'quick'}
    return res


def replay(case):
    ev, vs = check_set(tuple(case['names']))
    return vs
