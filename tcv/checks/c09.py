"""C09 - configs compose by declared precedence, without leaking or silent override.

X: config trees of depth <= 3 (root -> used -> used-by-used, each level plain or `as ns`), media (JSON / YAML / multi-config
parts / inline objects), parameter declarations (required, defaulted, name_in_config, dtype), the same parameter name in
tasks of different configs, x 15 context shapes (dict, files, Context object, lists, nested `uses` / `uses .. as`,
for_namespaces for exact / parent / foreign namespaces); the same file mounted twice with per-namespace values; two
configs declaring one task in one namespace (both orders); missing required values; wrong dtypes. Oracle: parameter
values of every task == reference precedence; expected errors at construction; no aliasing between caller-owned context
data, the configs and each other; result independent of the order of `uses`.
"""
import copy
import itertools

from tcv import families, refmodel, scratch, worlds
from tcv.core import Result, Violation, digest
from tcv.pool import pmap

P, bc = families.P, families.by_class


def tasks3():
    return {
        'L0': {'name': 'l0', 'params': [P('shared'), P('own0', default='d0'), P('ren', nic='renamed_in_config', default='r'), P('num', dtype='int', default=1), P('mut', default=None), P('rate', dtype='float', default=0.5)],
               'inputs': [], 'data': 'json'},
        'L1': {'name': 'l1', 'params': [P('shared'), P('own1', default='d1'), P('pth', dtype='Path', default=None), P('mut', default=None)], 'inputs': [], 'data': 'json'},
        'L2': {'name': 'l2', 'params': [P('shared', default='dflt2'), P('own2'), P('mut', default=None), P('rate', default=0.25)], 'inputs': [], 'data': 'json'},
    }


MEDIA = {
    'jjy': ({'medium': 'json'}, {'medium': 'json', 'dir': 'sub'}, {'medium': 'yaml'}),
    'ypp': ({'medium': 'yaml'}, {'medium': 'part', 'file': 'multi.yaml', 'ext': 'yaml', 'part': 'midpart'}, {'medium': 'part', 'file': 'multi.yaml', 'ext': 'yaml', 'part': 'lowpart'}),
    'pjj': ({'medium': 'part', 'file': 'rootmulti.json', 'ext': 'json', 'part': 'main'}, {'medium': 'json'}, {'medium': 'json'}),
}


def base_desc(as_mid, as_low, media, values=None):
    m0, m1, m2 = [dict(x) for x in MEDIA[media]]
    v = values or ({'shared': 's0', 'renamed_in_config': 'rr', 'ren': 'ignored-key', 'rate': 1e-05}, {'shared': 's1', 'pth': '/p/q'}, {'own2': 'o2', 'rate': 1e+16})  # floats whose JSON text has an exponent and no dot
    cfgs = {
        'root': dict(m0, tasks=['L0'], values=dict(v[0]), uses=[{'config': 'mid', 'as': as_mid}]),
        'mid': dict(m1, tasks=['L1'], values=dict(v[1]), uses=[{'config': 'low', 'as': as_low}]),
        'low': dict(m2, tasks=['L2'], values=dict(v[2])),
    }
    return {'name': f'tree[{as_mid},{as_low},{media}]', 'tasks': tasks3(), 'configs': cfgs, 'root': 'root', 'variants': {'v': []}}


def namespaces(as_mid, as_low):
    mid = as_mid
    low = '::'.join(x for x in (as_mid, as_low) if x) or None
    return mid, low


def contexts(as_mid, as_low):
    mid, low = namespaces(as_mid, as_low)
    D = lambda data=None, fn=None, **k: dict({'kind': 'dict', 'data': data or {}}, **({'for_namespaces': fn} if fn else {}), **k)  # noqa
    F = lambda kind, data=None, fn=None, **k: dict({'kind': kind, 'data': data or {}}, **({'for_namespaces': fn} if fn else {}), **k)  # noqa
    out = {
        'none': None,
        'dict': D({'shared': 'cx', 'own1': 'c1'}),
        'json': F('json', {'shared': 'cx', 'own2': 'c2', 'rate': 2e-06}),
        'yaml': F('yaml', {'own0': 'y0', 'num': 5}),
        'object': F('object', {'shared': 'obj'}),
        'list2': {'kind': 'list', 'items': [D({'shared': 'cA', 'own1': 'A1'}), D({'shared': 'cB', 'own0': 'cB0'})]},
        'list3': {'kind': 'list', 'items': [D({'shared': 'cA'}), F('json', {'shared': 'cB', 'own2': 'B2'}), F('yaml', {'own2': 'C2'})]},
        'foreign': D(fn={'zzz': {'shared': 'never'}, 'zzz::b': {'own2': 'never'}}),
        'renamed': D({'renamed_in_config': 'from-ctx', 'ren': 'still-ignored'}),
        'ctx_uses': F('json', {'own0': 'u0'}, uses=[{'ctx': F('yaml', {'own1': 'u1'})}]),
        'mutable': D({'mut': [1, [2, {'k': [3]}]]}),
        # the caller's own dict / Context object names further context files
        # a context whose `uses` names two files that set the same keys: the later one wins, whatever the files are called
        'ctx_uses_order': F('json', {'own0': 'top'}, uses=[{'ctx': F('yaml', {'shared': 'first', 'own1': 'first1'}, file='zz_defaults.yaml')},
                                                           {'ctx': F('json', {'shared': 'second'}, file='aa_cluster.json')}]),
        # ... and the naming context ITSELF sets a key one of its `uses` sets: the context comes first, its `uses` follow in order (later over
        # earlier, as release 1.4.0 merges them - a stored pipeline is configured by these values, C12)
        'ctx_uses_own_overlap': F('json', {'own0': 'top', 'shared': 'own'}, uses=[{'ctx': F('yaml', {'shared': 'used', 'own1': 'u1'})}]),
        'dict_uses': D({'own0': 'u0'}, uses=[{'ctx': F('yaml', {'own1': 'u1'})}]),
        'object_uses': F('object', {'own0': 'u0'}, uses=[{'ctx': F('json', {'own1': 'u1', 'shared': 'u-shared'})}]),
    }
    if mid or low:
        fn = {}
        if mid:
            fn[mid] = {'shared': 'ns-mid', 'own1': 'ns1'}
        if low:
            fn[low] = {'own2': 'ns-low'}
        out['exact'] = D(fn=fn)
        out['global+exact'] = D({'shared': 'g', 'own2': 'g2'}, fn={(low or mid): {'shared': 'exact'}})
        out['list-ns'] = {'kind': 'list', 'items': [D(fn={(low or mid): {'shared': 'first', 'own2': 'first2'}}), D(fn={(low or mid): {'shared': 'second'}})]}
        out['mutable-ns'] = D({'mut': {'g': [0]}}, fn={(low or mid): {'mut': [1, {'k': [2]}]}})
    if mid:
        # a context mounted `as <mid>` that itself plainly uses another file: that file belongs to <mid> too
        out['uses-as-then-plain'] = F('json', {'own0': 'top'}, uses=[{'ctx': F('yaml', {'shared': 'via-as'}, uses=[{'ctx': F('json', {'mut': 'deep-plain'})}]), 'as': mid}])
    if mid and as_low:
        out['uses-as-then-as'] = F('json', {'own0': 'top'}, uses=[{'ctx': F('yaml', {'shared': 'via-as'}, uses=[{'ctx': F('json', {'mut': 'deep-as'}), 'as': as_low}]), 'as': mid}])
    if mid and as_low:
        out['parent-only'] = D(fn={mid: {'shared': 'parent', 'own2': 'parent2'}})  # must not reach mid::low
        out['uses-as'] = F('json', {'own0': 'top'}, uses=[{'ctx': F('yaml', {'shared': 'via-as'}, fn={as_low: {'own2': 'nested'}}), 'as': mid}])
    elif mid:
        out['uses-as'] = F('json', {'own0': 'top'}, uses=[{'ctx': F('yaml', {'shared': 'via-as'}), 'as': mid}])
    return out


def tree_family(tier):
    out = []
    medias = ['jjy', 'ypp', 'pjj'] if tier != 'quick' else ['jjy', 'ypp']
    for as_mid, as_low in itertools.product((None, 'a'), (None, 'b')):
        for media in medias:
            for cname, ctx in contexts(as_mid, as_low).items():
                if tier == 'quick' and media != 'jjy' and cname not in ('none', 'exact', 'list2', 'uses-as', 'global+exact', 'uses-as-then-plain', 'dict_uses', 'object_uses', 'ctx_uses_order', 'ctx_uses_own_overlap'):
                    continue
                d = base_desc(as_mid, as_low, media)
                d['context'] = ctx
                d['name'] += f'/{cname}'
                out.append(d)
    # namespaces that are not identifiers (a dash, a dot): taken whole, by `uses ... as` and by the context alike
    for as_mid, as_low in (('ds-v2', None), ('ds-v1', 'v1.2'), ('a b', 'x-1')):
        for cname in ('exact', 'global+exact', 'uses-as', 'parent-only', 'list-ns'):
            ctx = contexts(as_mid, as_low).get(cname)
            if ctx is None:
                continue
            d = base_desc(as_mid, as_low, 'jjy')
            d['context'] = ctx
            d['name'] += f'/{cname}'
            out.append(d)
    # inline root config with file children
    d = base_desc('a', None, 'jjy')
    d['configs']['root'] = dict(d['configs']['root'], medium='inline', cname='inline_root')
    d['name'] = 'inline-root'
    out.append(d)
    return out


def special_family():
    out = []
    # expected errors
    d = base_desc(None, 'b', 'jjy', values=({'shared': 's0'}, {'shared': 's1'}, {}))
    d['name'] = 'missing-required'
    out.append(d)
    d = base_desc('a', 'b', 'jjy', values=({'shared': 's0'}, {'shared': 's1'}, {}))
    d['context'] = {'kind': 'dict', 'data': {}, 'for_namespaces': {'a': {'own2': 'wrong-namespace'}}}
    d['name'] = 'missing-required-context-for-parent-only'
    out.append(d)
    d = base_desc('a', 'b', 'jjy', values=({'shared': 's0'}, {'shared': 's1'}, {}))
    d['context'] = {'kind': 'dict', 'data': {'own2': 'from-context'}}
    d['name'] = 'required-from-context'
    out.append(d)
    d = base_desc(None, None, 'jjy', values=({}, {'shared': 's1'}, {'own2': 'o'}))
    d['name'] = 'value-of-used-config-does-not-reach-user'   # root lacks `shared`; mid's value must not leak upwards
    out.append(d)
    d = base_desc('a', None, 'jjy', values=({'shared': 's0', 'own1': 'leak?', 'own2': 'leak?'}, {'shared': 's1'}, {'own2': 'o'}))
    d['name'] = 'value-of-user-does-not-reach-used-config'
    out.append(d)
    for val, nm in (('x', 'dtype-str-for-int'), (1.5, 'dtype-float-for-int'), (None, 'dtype-none-ok'), (True, 'dtype-bool-is-int'),
                    # wrongly typed values that are FALSY are wrong all the same; a correctly typed falsy value is fine
                    ('', 'dtype-empty-str-for-int'), (0.0, 'dtype-zero-float-for-int'), ([], 'dtype-empty-list-for-int'), ({}, 'dtype-empty-dict-for-int'), (0, 'dtype-zero-ok')):
        d = base_desc(None, None, 'jjy', values=({'shared': 's0', 'num': val}, {'shared': 's1'}, {'own2': 'o'}))
        d['name'] = nm
        out.append(d)
    d = base_desc(None, None, 'jjy', values=({'shared': 's0'}, {'shared': 's1', 'pth': 5}, {'own2': 'o'}))
    d['name'] = 'dtype-int-for-path'
    out.append(d)
    for val, nm in ((0, 'dtype-zero-for-float'), (False, 'dtype-false-for-float'), ('', 'dtype-empty-str-for-float')):
        d = base_desc(None, None, 'jjy', values=({'shared': 's0', 'rate': val}, {'shared': 's1'}, {'own2': 'o'}))
        d['name'] = nm
        out.append(d)
    d = base_desc(None, None, 'jjy', values=({'shared': 's0'}, {'shared': 's1', 'pth': 0}, {'own2': 'o'}))
    d['name'] = 'dtype-zero-for-path'
    out.append(d)
    d = base_desc('a', None, 'jjy', values=({'shared': 's0'}, {'shared': 's1'}, {'own2': 'o'}))
    d['context'] = {'kind': 'dict', 'data': {'num': ''}, 'for_namespaces': {'a': {'pth': False}}}
    d['name'] = 'dtype-falsy-from-context'
    out.append(d)
    # an explicit null is a value (it is not "absent"): it overrides the default, from the file and from contexts
    d = base_desc('a', 'b', 'jjy', values=({'shared': 's0', 'own0': None}, {'shared': 's1', 'own1': None}, {'own2': 'o', 'shared': None}))
    d['name'] = 'explicit-null-in-file'
    out.append(d)
    d = base_desc('a', 'b', 'jjy')
    d['context'] = {'kind': 'dict', 'data': {'own0': None}, 'for_namespaces': {'a': {'own1': None}, 'a::b': {'shared': None}}}
    d['name'] = 'explicit-null-in-context'
    out.append(d)
    # two configs declaring the same task in one namespace: conflict in both orders; different namespaces: fine
    for order in (0, 1):
        for ns in (None, 'n'):
            uses = [{'config': 'c1', 'as': ns}, {'config': 'c2', 'as': ns}]
            tasks = {'T': {'name': 't', 'params': [P('p')], 'inputs': [], 'data': 'json'}}
            out.append({'name': f'conflict[{ns}]', 'tasks': tasks, 'root': 'top', 'variants': {'v': []}, 'configs': {
                'top': {'medium': 'json', 'tasks': [], 'values': {}, 'uses': uses[::-1] if order else uses},
                'c1': {'medium': 'json', 'tasks': ['T'], 'values': {'p': 1}},
                'c2': {'medium': 'json', 'dir': 'elsewhere', 'file': 'c1.json', 'tasks': ['T'], 'values': {'p': 2}}}})
            out.append({'name': 'no-conflict-different-namespaces', 'tasks': tasks, 'root': 'top', 'variants': {'v': []}, 'configs': {
                'top': {'medium': 'json', 'tasks': [], 'values': {}, 'uses': ([{'config': 'c1', 'as': 'n1'}, {'config': 'c2', 'as': 'n2'}])[::-1 if order else 1]},
                'c1': {'medium': 'json', 'tasks': ['T'], 'values': {'p': 1}},
                'c2': {'medium': 'json', 'dir': 'elsewhere', 'file': 'c1.json', 'tasks': ['T'], 'values': {'p': 2}}}})
    # one file mounted twice (and nested) with per-namespace values
    for vid in ('v12', 'v21', 'vg2', 'v1_', 'v_1'):
        for f in (families.mount2, families.mount2p):
            d = worlds.apply_variant(f(), vid)
            d['variants'] = {'v': []}
            d['name'] = f'{d["name"]}-{vid}'
            out.append(d)
    # nested twice: a config that itself uses another one, mounted as n1 and n2
    tasks = {'X': {'name': 'x', 'params': [P('px', default=0)], 'inputs': [], 'data': 'json'}, 'Y': {'name': 'y', 'params': [P('py', default=0)], 'inputs': [], 'data': 'json'}}
    for ctx in ({'n1': {'px': 1}, 'n2': {'px': 2, 'py': 3}}, {'n1': {'py': 1}, 'n2::deep': {'px': 9}, 'n1::deep': {'px': 8}}):
        out.append({'name': 'nested-twice', 'tasks': tasks, 'root': 'top', 'variants': {'v': []}, 'context': {'kind': 'dict', 'data': {}, 'for_namespaces': ctx}, 'configs': {
            'top': {'medium': 'json', 'tasks': [], 'values': {}, 'uses': [{'config': 'mid', 'as': 'n1'}, {'config': 'mid', 'as': 'n2'}]},
            'mid': {'medium': 'yaml', 'tasks': ['Y'], 'values': {}, 'uses': [{'config': 'leaf', 'as': 'deep'}]},
            'leaf': {'medium': 'json', 'tasks': ['X'], 'values': {}}}})
    return out


ACCIDENTAL = (RecursionError, AttributeError, TypeError, IndexError, UnboundLocalError, NameError)


def check(desc):
    out = []
    root = scratch.fresh('c09')
    w = worlds.World(desc, root)
    try:
        d = worlds.apply_variant(desc, 'v')
        m = refmodel.Model(d, w.modname)
        # caller-owned context: keep a reference and a snapshot
        ctx_arg = w._context_arg(d, d.get('context'), 'v', [0])
        snap = copy.deepcopy(_plain(ctx_arg))
        try:
            ch = w.chain('v', base_dir=root + '/data', ctx_override=ctx_arg)
            err = None
        except Exception as e:  # noqa
            ch, err = None, e
        if m.error is not None:
            if err is None:
                return [(f'invalid configuration accepted ({m.error.kind})', f'{m.error}; task params {_params(ch)}')]
            if isinstance(err, ACCIDENTAL):
                return [(f'invalid configuration ends in {type(err).__name__} ({m.error.kind})', str(err)[:200])]
            return []
        if err is not None:
            return [('valid configuration rejected', f'{type(err).__name__}: {str(err)[:300]}')]
        if set(ch.tasks) != set(m.tasks):
            return [('tasks differ', f'{sorted(ch.tasks)} vs {sorted(m.tasks)}')]
        for fn, t in ch.tasks.items():
            got = {p: worlds.jsonable(t.params[p]) for p in m.tasks[fn].params}
            exp = {p: refmodel.term_value(v) for p, v in m.tasks[fn].params.items()}
            if got != exp:
                diff = {p: (got[p], exp[p]) for p in exp if got[p] != exp[p]}
                return [('task sees parameter values other than the declared precedence gives', f'{fn}: (impl, reference) {diff}')]
            if w.decode(t.value, 'json')['term'] != m.term(fn):
                return [('task computes with other values than its parameters', f'{fn}')]
        if _plain(ctx_arg) != snap:
            return [('caller-owned context data modified by construction', f'before {snap}, after {_plain(ctx_arg)}')]
        # aliasing: no mutable container is shared between configs, or between a config and the caller's context
        owners = {}
        cfgs = {}
        for fn, t in ch.tasks.items():
            c = t.get_config().get_original_config()
            cfgs[id(c)] = (fn, c)
        for cid, (fn, c) in cfgs.items():
            for o in _containers(c.data):
                owners.setdefault(id(o), set()).add(fn)
        shared = {k: v for k, v in owners.items() if len(v) > 1}
        if shared:
            return [('mutable value shared between configs', f'configs of {sorted(next(iter(shared.values())))}')]
        ctx_ids = {id(o) for o in _containers(ctx_arg)} if ctx_arg is not None else set()
        if ctx_ids & set(owners):
            return [('mutable value shared between the caller\'s context and a config', '')]
        # mutate every container of every config: the caller's context and a chain rebuilt from it are unaffected
        if ctx_arg is not None and any(isinstance(x, (list, dict)) for x in _containers(_ctx_values(ctx_arg))):
            for cid, (fn, c) in cfgs.items():
                for o in _containers(c.data):
                    if isinstance(o, list):
                        o.append('POLLUTED')
                    elif isinstance(o, dict) and o is not c.data:
                        o['POLLUTED'] = True
            if _plain(ctx_arg) != snap:
                return [('mutating a config\'s values changes the caller\'s context', '')]
            try:
                ch2 = w.chain('v', base_dir=root + '/data2', ctx_override=ctx_arg)
            except Exception as e:  # noqa
                return [('a second chain cannot be built from the same context and files after the first chain\'s config values were modified', f'{type(e).__name__}: {str(e)[:200]}')]
            for fn, t in ch2.tasks.items():
                got = {p: worlds.jsonable(t.params[p]) for p in m.tasks[fn].params}
                exp = {p: refmodel.term_value(v) for p, v in m.tasks[fn].params.items()}
                if got != exp:
                    return [('values leak from one chain into a second chain built from the same context', f'{fn}: {got} vs {exp}')]
        return out
    finally:
        w.dispose()
        scratch.drop(root)


def _params(ch):
    return {fn: {p: t.params[p] for p in t.params.keys()} for fn, t in ch.tasks.items()} if ch is not None else None


def _ctx_values(c):
    return c


def _plain(o):
    from taskchain import Context
    if isinstance(o, Context):
        return {'__context__': _plain(dict(o.data)), 'fn': _plain(dict(o.for_namespaces))}
    if isinstance(o, dict):
        return {k: _plain(v) for k, v in o.items()}
    if isinstance(o, (list, tuple)):
        return [_plain(v) for v in o]
    return o if isinstance(o, (str, int, float, bool, type(None))) else str(o)


def _containers(o, seen=None):
    from taskchain import Context
    seen = seen if seen is not None else set()
    out = []
    if isinstance(o, Context):
        return _containers(o.data, seen) + _containers(o.for_namespaces, seen)
    if isinstance(o, (list, dict)) and id(o) not in seen:
        seen.add(id(o))
        out.append(o)
        for v in (o.values() if isinstance(o, dict) else o):
            out += _containers(v, seen)
    return out


def _job(descs):
    import tcv

    tcv.quiet_library()
    res = Result()
    for desc in descs:
        res.add('evaluations')
        res.add('transitions')
        if desc.get('context') is not None:
            res.add('distinct_nontrivial')
        try:
            bad = check(desc)
        except Exception as e:  # noqa
            import traceback
            res.harness_errors.append(f'{desc["name"]}: {type(e).__name__}: {e}\n{traceback.format_exc()[-600:]}')
            continue
        for kind, msg in bad:
            res.violations.append(Violation(f'{desc["name"].split("[")[0].split("/")[0]}: {kind}', f'{desc["name"]}: context {desc.get("context")}: {msg}', {'desc': desc}))
    return res


def reused_config_object_scenario():
    """a Config OBJECT named in `uses` and used again by a second config built with another context (a sweep that builds the experiment config per
    step but the model config once): its tasks see the second context's values and, where that context is silent, the config's own"""
    from pathlib import Path
    from taskchain import Config, Parameter, Task

    class T(Task):
        class Meta:
            parameters = [Parameter('x'), Parameter('y')]

        def run(self, x, y) -> list:
            return [x, y]

    out = []
    root = scratch.fresh('c09r')
    try:
        for first_ctx, second_ctx, want in (({'x': 5, 'y': 5}, {'x': 6}, [6, 1]), ({'x': 5}, {'x': 6}, [6, 1]), ({'x': 5}, None, [1, 1]), (None, {'x': 6}, [6, 1])):
            inner = Config(Path(root) / 'd', name='inner', data={'tasks': [T], 'x': 1, 'y': 1})
            v1 = Config(Path(root) / 'd', name='o1', data={'uses': [inner]}, context=first_ctx).chain()['t'].params
            v1 = [v1.x, v1.y]
            p2 = Config(Path(root) / 'd', name='o2', data={'uses': [inner]}, context=second_ctx).chain()['t'].params
            got = [p2.x, p2.y]
            if got != want:
                leaked = all(got[i] == second_ctx[k] for i, k in enumerate('xy') if second_ctx and k in second_ctx)
                out.append(('reused-config-object: value of an earlier context kept where the later context is silent' if leaked else 'reused-config-object: the later context is not applied',
                            f'used config object (x=1, y=1) built first under context {first_ctx} (-> {v1}), then under {second_ctx}: task sees {got}, declared precedence gives {want}'))
    except Exception as e:  # noqa
        out.append(('reused-config-object: cannot be built', f'{type(e).__name__}: {e}'))
    finally:
        scratch.drop(root)
    return out


def run(tier, seed):
    fam = tree_family(tier) + special_family()
    k = seed % len(fam)
    fam = fam[k:] + fam[:k]
    res = Result()
    n = 64
    for r in pmap(_job, [fam[i::n] for i in range(n)]):
        res.merge(r)
    for kind, msg in reused_config_object_scenario():
        res.violations.append(Violation(kind, msg, {'kind': 'reused-config-object'}))
    res.add('evaluations', 4)
    res.coverage['configurations'] = len(fam)
    res.coverage['states'] = len(fam)
    res.coverage['traces_validated_against_impl'] = res.coverage['evaluations']
    res.coverage['exhaustive'] = True
    res.coverage['rule'] = ('3-level config trees x {plain, as ns} per level x media combinations x up to 17 context shapes; special: missing required, dtype, value leakage up/down the uses tree, '
                            'same-task conflicts in both orders, one file mounted twice / nested twice with per-namespace context; aliasing and pollution checks on caller-owned context data; '
                            'distinct_nontrivial = configurations with a context')
    res.sample({'name': fam[0]['name'], 'context': fam[0].get('context')})
    res.assumptions += ['between a context and the files it names in `uses`: the context first, then its `uses` in order (as release 1.4.0 merges them)', 'reference precedence: config values < global context entries < entries for the exact namespace; later contexts over earlier']
    return res


def replay(case):
    import tcv

    tcv.quiet_library()
    if case.get('kind') == 'reused-config-object':
        return [Violation(k, m, case) for k, m in reused_config_object_scenario()]
    return [Violation(f'{case["desc"]["name"].split("[")[0].split("/")[0]}: {k}', m, case) for k, m in check(case['desc'])]
