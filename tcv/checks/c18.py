"""C18 - run records describe the run that produced the stored result.

Histories within one process over {new(variant), value, task force, fail(task, kind)} (no restart: the statement is
about one process); after every step, for every task that has a stored result, run info and log must be exactly the
records of the run (generation) that produced that stored result; after every successful run they must be that run's.
"""
from tcv import families, histories, specs, worlds
from tcv.core import Result, Violation

P, bc = families.P, families.by_class


def rec_world():
    d = families.chain3(kinds=('json', 'inmemory', 'numpy'))
    d['name'] = 'rec3'
    d['tasks']['A']['params'] = [P('pa'), P('ign', default=0, ignore=True), P('pth', default='/x/{V}', dtype='Path')]
    d['global_vars'] = {'V': 'subst'}
    d['variants'] = {'v0': [], 'v1': [[['configs', 'root', 'values', 'pa'], 2]]}
    return d


def genrec_world():
    """results produced by generator bodies (consumed by the library after run() has returned) and a directory result"""
    d = families.chain3(kinds=('generator', 'generator_lazy', 'dir'))
    d['name'] = 'genrec'
    d['variants'] = {'v0': [], 'v1': [[['configs', 'root', 'values', 'pa'], 2]]}
    return d


def resume_world():
    """a RESUMABLE first task: a failed attempt leaves its work directory, the retry picks it up - its records are those of the retry only"""
    d = families.chain3(kinds=('continues', 'json', 'dir'))
    d['name'] = 'resume'
    return d


def nestlog_world():
    """two tasks of one class (same task name) in different namespaces, one an input of the other: the inner one runs
    nested inside the outer one's run"""
    return {
        'name': 'nestlog',
        'tasks': {'Yo': {'name': 'y', 'params': [P('py', default=0)], 'inputs': [families.by_name('n::y')], 'data': 'json'},
                  'Yi': {'name': 'y', 'params': [P('py', default=0)], 'inputs': [], 'data': 'json'}},
        'configs': {'root': {'medium': 'json', 'tasks': ['Yo'], 'values': {'py': 1}, 'uses': [{'config': 'sub', 'as': 'n'}]},
                    'sub': {'medium': 'json', 'tasks': ['Yi'], 'values': {'py': 2}}},
        'root': 'root',
        'variants': {'v0': [], 'v1': [[['configs', 'sub', 'values', 'py'], 3]]},
    }


def _rich(f):
    def g():
        d = f()
        d['_rich_records'] = True   # records whose length differs between runs, a message logged from a helper thread of run()
        return d
    return g


WORLDS = {'rec3': _rich(rec_world), 'mount2': _rich(families.mount2), 'chain3': _rich(families.chain3), 'nestlog': _rich(nestlog_world), 'genrec': _rich(genrec_world), 'resume': _rich(resume_world)}


def expected_records(m, fn, gen):
    ti = m.tasks[fn]
    return {
        'task_name': ti.local, 'task_class': ti.key,
        'parameters': m.param_reprs(fn),
        'input_tasks': {t: m.key(t) for t in ti.input_names},
        'namespace': ti.ns,
        'config': m.config_name(ti.mount[1]),
        'log': worlds.rich_records(ti.key, gen),
        'messages': [f'tcv {ti.key} gen{gen} begin', f'tcv {ti.key} gen{gen} helper', f'tcv {ti.key} gen{gen} end'],
    }


def compare(rec, exp, check_log=True):
    """-> list of (kind, msg)"""
    out = []
    if 'error' in rec:
        return [('records unreadable', rec['error'])]
    ri, log = rec['run_info'], rec['log']
    if ri is None:
        out.append(('run info missing', 'no run info file'))
    else:
        t = ri.get('task', {})
        if t.get('name') != exp['task_name'] or t.get('class') != exp['task_class']:
            out.append(('run info names another task', f'{t} vs {exp["task_name"]}/{exp["task_class"]}'))
        if ri.get('parameters') != exp['parameters']:
            out.append(('run info parameter representations wrong', f'{ri.get("parameters")} vs {exp["parameters"]}'))
        if ri.get('input_tasks') != exp['input_tasks']:
            out.append(('run info input-task keys wrong', f'{ri.get("input_tasks")} vs {exp["input_tasks"]}'))
        c = ri.get('config') or {}
        if c.get('namespace') != exp['namespace'] or str(c.get('name', '')).split('/')[0] != exp['config']:
            out.append(('run info config wrong', f'{c} vs namespace={exp["namespace"]} config={exp["config"]}'))
        if ri.get('log') != exp['log']:
            out.append(('run info records are not those of the producing run', f'{ri.get("log")} vs {exp["log"]}'))
        for k in ('started', 'ended', 'time'):
            if k not in ri:
                out.append(('run info incomplete', f'missing {k}'))
    if not check_log:
        # the latest attempt on this task failed: its log legitimately shows that attempt (the statement constrains the
        # log after successful runs only); the run info is written after the value is saved and must still be the producer's
        pass
    elif log is None:
        out.append(('log missing', 'no log file'))
    else:
        n = len(exp['messages'])
        ok = (len(log) == n + 2 and log[0].endswith(f'run started with params: {_params_line(exp)}') and log[1:n + 1] == exp['messages'] and log[n + 1].endswith('run ended'))
        if not ok:
            out.append(('log is not the log of the producing run', f'{log} vs [started, {exp["messages"]}, ended]'))
    return out


def _params_line(exp):
    return exp['_params_repr']


def judge(desc, spec):
    def j(i, obs, exp_step, ex):
        op = obs['op']
        out = []
        if 'records' not in obs:
            return out
        hist = [o['op'] for o, _ in ex.steps]
        case = {'world': desc['name'], 'hist': hist}
        slot = op[1]
        sm = ex.model
        m = sm.slots[slot]['model']
        ran_ok = set()
        if op[0] == 'value' and not (exp_step.get('error')):
            ran_ok = set(exp_step['runs'])
        elif op[0] == 'value' and exp_step.get('error'):
            ran_ok = set(exp_step['runs'][:-1]) if False else set()
        seen_obj = set()
        for fn in sorted(m.tasks):
            o = sm.obj(m, fn)
            if o in seen_obj:
                continue
            kind = m.tasks[fn].decl.get('data', 'json')
            gen = None
            if kind != 'inmemory' and o in sm.stored:
                gen = sm.stored[o]
                why = 'stored result'
            elif kind == 'inmemory' and fn in ran_ok:
                gen = sm.slots[slot]['mem'].get(o)
                why = 'successful run'
            if gen is None:
                continue
            seen_obj.add(o)
            e = expected_records(m, fn, gen)
            e['_params_repr'] = m.param_text(fn)
            for kindv, msg in compare(obs['records'][fn], e, check_log=o not in sm.last_failed):
                out.append(Violation(f'{desc["name"]}: {kindv}', f'history {hist}: task `{fn}` ({why} of generation {gen}): {msg}', case))
        return out
    return j


def dotted_names_scenario():
    """name mode, config names with dots (exp.v1 / exp.v2), results that are files, directories and in-memory values: each task's
    run info and log are those of ITS run"""
    from pathlib import Path

    from taskchain import Config, InMemoryData, Parameter, Task
    from taskchain.data import DirData
    from tcv import scratch

    class F(Task):
        class Meta:
            parameters = [Parameter('p')]

        def run(self, p) -> int:
            self.logger.info(f'F with p={p}')
            self.save_to_run_info({'p': p})
            return p

    class D(Task):
        class Meta:
            parameters = [Parameter('p')]

        def run(self, p) -> DirData:
            self.logger.info(f'D with p={p}')
            self.save_to_run_info({'p': p})
            d = self.get_data_object()
            (d.dir / 'f.txt').write_text(str(p))
            return d

    class M(Task):
        class Meta:
            parameters = [Parameter('p')]
            data_class = InMemoryData

        def run(self, p) -> list:
            self.logger.info(f'M with p={p}')
            self.save_to_run_info({'p': p})
            return [p]

    out = []
    root = scratch.fresh('c18d')
    try:
        chains = {}
        for name, p in (('exp.v1', 1), ('exp.v2', 2), ('exp', 3)):
            chains[name] = Config(Path(root) / 'data', name=name, data={'tasks': [F, D, M], 'p': p}).chain(parameter_mode=False)
            for t in ('f', 'd', 'm'):
                _ = chains[name][t].value
        for name, p in (('exp.v1', 1), ('exp.v2', 2), ('exp', 3)):
            for t in ('f', 'd', 'm'):
                task = chains[name][t]
                ri = task.run_info or {}
                log = task.log or []
                if ri.get('log') != [{'p': p}] or not any(l.endswith(f'with p={p}') for l in log) or any('with p=' in l and not l.endswith(f'with p={p}') for l in log):
                    kind = {'f': 'file', 'd': 'directory', 'm': 'in-memory'}[t]
                    out.append((f'name mode, dotted config names, {kind} result: run records are those of another config\'s run',
                                f'config {name} (p={p}) task {t}: run info records {ri.get("log")}, parameters {ri.get("parameters")}, log {log}'))
    except Exception as e:  # noqa
        out.append(('name mode with dotted config names fails', f'{type(e).__name__}: {e}'))
    finally:
        scratch.drop(root)
    return out


def dotted_task_names_scenario():
    """task names with dots (`model` and `model.part`, the second an input of the first): each log holds its own task's messages only"""
    from pathlib import Path

    from taskchain import Config, Task
    from tcv import scratch

    class Part(Task):
        class Meta:
            name = 'model.part'

        def run(self) -> int:
            self.logger.info('PART message')
            return 1

    class Model(Task):
        class Meta:
            name = 'model'
            input_tasks = [Part]

        def run(self) -> int:
            self.logger.info('MODEL before')
            v = self.input_tasks['model.part'].value
            self.logger.info('MODEL after')
            return 2 + v

    out = []
    root = scratch.fresh('c18t')
    try:
        for ns in (None, 'n'):
            ch = Config(Path(root) / f'data_{ns}', name='c', namespace=ns, data={'tasks': [Part, Model]}).chain()
            pre = f'{ns}::' if ns else ''
            _ = ch[f'{pre}model'].value
            mlog = [l for l in (ch[f'{pre}model'].log or []) if 'message' in l or 'MODEL' in l or 'run started' in l or 'run ended' in l]
            plog = [l for l in (ch[f'{pre}model.part'].log or []) if 'message' in l or 'MODEL' in l]
            if any('PART' in l or 'model.part' in l for l in mlog) or [l for l in mlog if 'MODEL' in l] != ['MODEL before', 'MODEL after']:
                out.append(('log of a task holds messages of another task whose name extends its own with a dot', f'namespace {ns}: log of `model`: {ch[f"{pre}model"].log}'))
            if plog != ['PART message']:
                out.append(('log of a task with a dotted name is not its own', f'namespace {ns}: log of `model.part`: {ch[f"{pre}model.part"].log}'))
    except Exception as e:  # noqa
        out.append(('tasks with dotted names cannot be computed', f'{type(e).__name__}: {e}'))
    finally:
        scratch.drop(root)
    return out


def construct_during_run_scenario():
    """while a task runs, another chain holding a task of the SAME full name is constructed and a stored result is loaded through it
    (nothing else runs): the log of the running task is complete - everything it logs afterwards is there too"""
    from pathlib import Path

    from taskchain import Config, Parameter, Task
    from tcv import scratch

    root = scratch.fresh('c18c')
    out = []

    class Stats(Task):
        class Meta:
            parameters = [Parameter('x'), Parameter('peek', default=None)]

        def run(self, x, peek) -> int:
            self.logger.info(f'stats x={x} before')
            other = 0
            if peek is not None:
                ch = Config(Path(peek), name='reference', data={'tasks': [Stats], 'x': 10}).chain()   # same full name `stats`
                _ = ch.tasks_df
                other = ch['stats'].value                                                              # stored already: loaded, not run
            self.logger.info(f'stats x={x} after (reference {other})')
            return x + other

    try:
        ref_dir = Path(root) / 'ref'
        Config(ref_dir, name='reference', data={'tasks': [Stats], 'x': 10}).chain()['stats'].value
        ch = Config(Path(root) / 'data', name='main', data={'tasks': [Stats], 'x': 1, 'peek': str(ref_dir)}).chain()
        v = ch['stats'].value
        log = ch['stats'].log or []
        body = [l for l in log if l.startswith('stats x=')]
        if v != 11 or body != ['stats x=1 before', 'stats x=1 after (reference 10)'] or not (log and log[-1].endswith('run ended')):
            out.append(('log of a run is incomplete after another task of the same name was constructed during it', f'value {v}, log {log}'))
        ref_log = Config(ref_dir, name='reference', data={'tasks': [Stats], 'x': 10}).chain()['stats'].log or []
        if [l for l in ref_log if l.startswith('stats x=')] != ['stats x=10 before', 'stats x=10 after (reference 0)']:
            out.append(('log of a stored result changed when it was loaded during another run', f'{ref_log}'))
    except Exception as e:  # noqa
        out.append(('constructing a chain during a run fails', f'{type(e).__name__}: {e}'))
    finally:
        scratch.drop(root)
    return out


def silent_rerun():
    """success, force, recomputation while logging is switched off process-wide: afterwards the log holds nothing of the older run"""
    import logging

    import tcv
    tcv.quiet_library()
    out = []
    desc = WORLDS['rec3']()
    ex = histories.Exec(desc, records=True)
    try:
        ex.step(['new', 0, 'v0'])
        ex.step(['value', 0, 'a'])
        ex.step(['tforce', 0, 'a', False])
        logging.disable(logging.CRITICAL)
        try:
            obs, exp = ex.step(['value', 0, 'a'])
        finally:
            logging.disable(logging.NOTSET)
        if 'error' in obs['records']['a']:
            return [('records unreadable', obs['records']['a']['error'])]
        log = obs['records']['a']['log'] or []
        old = [l for l in log if 'gen0' in l]
        if old:
            out.append(('log of the latest run holds lines of an earlier run', f'recomputation (generation 1) with logging disabled: log still shows {log}'))
        ri = obs['records']['a']['run_info'] or {}
        if ri.get('log') != worlds.rich_records('A', 1):
            out.append(('run info records are not those of the producing run', f'{ri.get("log")}'))
    finally:
        ex.close()
    return out


def plan(tier):
    out = []
    for name in (['rec3', 'mount2', 'nestlog', 'genrec', 'resume'] if tier == 'quick' else ['rec3', 'mount2', 'chain3', 'nestlog', 'genrec', 'resume']):
        desc = WORLDS[name]()
        keys = list(desc['tasks'])
        faults = [(keys[0], 'raise'), (keys[0], 'raise_late'), (keys[-1], 'raise'), (keys[0], 'wrong_type'), (keys[0], 'interrupt')]
        if name == 'resume':
            faults = [(keys[0], 'raise_partial'), (keys[0], 'raise'), (keys[-1], 'raise_partial')]
        variants = list(desc['variants'])[:2]
        sp = specs.build(desc, variants=variants, ops=('new', 'value', 'tforce', 'fail'), slots=2 if tier != 'quick' else 1, faults=faults, delete_flags=(False,),
                         max_faults=1 if tier == 'quick' else 2, records=True)
        d0, d1 = (3, 4) if tier == 'quick' else (3, 5)
        out.append((desc, sp, d0, d1))
    # focused deeper slice: success, force, failing recomputation, (retry) needs five to six operations on one task
    desc = WORLDS['rec3']()
    sp = specs.build(desc, variants=['v0'], ops=('new', 'value', 'tforce', 'fail'), slots=1, tasks=['a'], delete_flags=(False,), max_faults=1, records=True,
                     faults=[('A', 'raise'), ('A', 'raise_late'), ('A', 'wrong_type'), ('A', 'interrupt')])
    out.append((desc, sp, 2, 6 if tier == 'quick' else 7))
    return out


def run(tier, seed):
    res = Result()
    for desc, sp, d0, d1 in plan(tier):
        r = histories.explore(desc, sp, 'tcv.checks.c18:judge', d0, d1, seed=seed)
        cov = r.coverage
        res.coverage.setdefault('per_world', {})[f"{desc['name']}/d{d1}"] = dict(states=cov['states'], transitions=cov['transitions'], executions=cov['executions'],
                                                                      stateless_depth=d0, merged_depth=cov['depth_completed'])
        res.add('states', cov['states'])
        res.add('transitions', cov['transitions'])
        res.add('evaluations', cov['executions'])
        res.add('distinct_nontrivial', cov['distinct_observation_vectors'])
        res.violations.extend(r.violations)
        res.sample({'world': desc['name'], 'faults': sp['faults'], 'variants': sp['variants']})
    res.add('evaluations')
    for kind, msg in silent_rerun():
        res.violations.append(Violation(f'rec3: {kind}', msg, {'world': 'rec3', 'silent': True, 'hist': []}))
    res.add('evaluations', 2)
    for kind, msg in dotted_task_names_scenario():
        res.violations.append(Violation(f'dotted-task: {kind}', msg, {'world': 'dotted-task', 'dotted_task': True, 'hist': []}))
    res.add('evaluations')
    for kind, msg in construct_during_run_scenario():
        res.violations.append(Violation(f'nested-construct: {kind}', msg, {'world': 'nested-construct', 'construct': True, 'hist': []}))
    res.add('evaluations')
    for kind, msg in dotted_names_scenario():
        res.violations.append(Violation(f'dotted: {kind}', msg, {'world': 'dotted', 'dotted': True, 'hist': []}))
    res.coverage['traces_validated_against_impl'] = res.coverage['evaluations']
    res.coverage['exhaustive'] = True
    res.coverage['rule'] = ('every history over {new, value, task force, fail(task, raise|raise-after-logging|wrong-type)} in one process up to the stateless depth, merged BFS beyond; after every '
                            'step run info + log of every task with a stored result are compared with the records of the generation that produced it')
    res.assumptions += ['user/version/timestamps of the run info are not compared', 'the first and last log lines are matched by suffix (task object may carry any of its names)']
    return res


def replay(case):
    import tcv

    tcv.quiet_library()
    if case.get('dotted_task'):
        return [Violation(f'dotted-task: {k}', m, case) for k, m in dotted_task_names_scenario()]
    if case.get('construct'):
        return [Violation(f'nested-construct: {k}', m, case) for k, m in construct_during_run_scenario()]
    if case.get('dotted'):
        return [Violation(f'dotted: {k}', m, case) for k, m in dotted_names_scenario()]
    if case.get('silent'):
        return [Violation(f'rec3: {k}', m, case) for k, m in silent_rerun()]
    desc = WORLDS[case['world']]()
    vs, c, ov = histories.run_history(desc, case['hist'], judge(desc, None), records=True)
    return vs
