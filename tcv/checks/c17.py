"""C17 - parallel_map equals map, whatever the scheduling; chunked.

Schedules: ALL completion orders of the pool workers (gate controller, tcv/gates.py) for every member of a bounded
family of (n, threads, chunksize, sort, total, list|generator, raising position), on both real implementations.
"""
import itertools

from tcv.core import HarnessError, Result, Violation
from tcv.pool import pmap

XS = [3, 1, 4, 1, 5, 9, 2]  # non-monotone, with a duplicate: sorting by value or by result is distinguishable from sorting by index


def _cases(tier):
    nmax = 4 if tier == 'quick' else 6
    out = []
    for n in range(0, nmax + 1):
        for threads in (1, 2, 3, 4):
            for chunksize in sorted({1, 2, 3, max(n, 1), 1000}):
                for sort in (True, False):
                    for gen in (False, True):
                        for total in (None, n):
                            if total is not None and (gen is False or sort is False):
                                continue  # `total` only matters for the progress bar; cross it with one corner only
                            out.append(dict(impl='threading', n=n, threads=threads, chunksize=chunksize, sort=sort, gen=gen, total=total, raise_idx=None))
                if n:
                    for ridx in range(n):
                        if tier == 'quick' and chunksize not in (2, 1000):
                            continue
                        out.append(dict(impl='threading', n=n, threads=threads, chunksize=chunksize, sort=True, gen=False, total=None, raise_idx=ridx))
            for gen in (False, True):
                out.append(dict(impl='iter', n=n, threads=threads, chunksize=None, sort=True, gen=gen, total=None, raise_idx=None))
            if n:
                # f RETURNS exception instances (values like any other)
                out.append(dict(impl='threading', n=n, threads=threads, chunksize=2, sort=True, gen=False, total=None, raise_idx=None, ret_exc=True))
                out.append(dict(impl='iter', n=n, threads=threads, chunksize=None, sort=True, gen=False, total=None, raise_idx=None, ret_exc=True))
            for ridx in range(n):
                out.append(dict(impl='iter', n=n, threads=threads, chunksize=None, sort=True, gen=False, total=None, raise_idx=ridx))
    return out


_H = {}


def _harness(impl):
    from tcv import gates
    import taskchain.utils.threading as th
    import taskchain.utils.iter as it

    if impl not in _H:
        if impl == 'threading':
            class _Bar:
                def __init__(self, *a, **k):
                    self.it = a[0] if a else k.get('iterable')

                def update(self, *a):
                    pass

                def __iter__(self):
                    return iter(self.it)

            th.tqdm = _Bar
            _H[impl] = gates.Harness(th)
        else:
            _H[impl] = gates.Harness(it)
    return _H[impl]


def _run_case(case):
    """Explore all completion orders of one family member. Returns Result."""
    import tcv

    tcv.quiet_library()
    import taskchain.utils.threading as th
    import taskchain.utils.iter as it

    res = Result()
    n, threads, cs = case['n'], case['threads'], case['chunksize']
    xs = XS[:n]
    ridx = case['raise_idx']
    # make the raising element's value unique so that `raise_at` hits exactly one call
    if ridx is not None:
        xs = list(xs)
        xs[ridx] = 100 + ridx
    raise_at = xs[ridx] if ridx is not None else None
    expected = [('r', x) for x in xs]
    ret_exc = case.get('ret_exc')
    h = _harness(case['impl'])

    def call(f0):
        f = f0
        if ret_exc:
            def f(x):  # noqa
                r = f0(x)
                return _EXC.setdefault(x, ValueError(x)) if x % 2 else r
        data = (x for x in xs) if case['gen'] else list(xs)
        if case['impl'] == 'threading':
            return th.parallel_map(f, data, threads=threads, sort=case['sort'], use_tqdm=True, total=case['total'], chunksize=cs)
        return it.parallel_map(f, data, threads=threads)

    if case['impl'] == 'threading':
        def capacity(started, released):
            # position inside the current chunk
            chunk_start = (released // cs) * cs
            chunk_len = min(cs, n - chunk_start)
            return min(threads, chunk_len - (released - chunk_start))
    else:
        def capacity(started, released):
            return min(threads, n - released)

    if threads == 1:
        # sequential path: no pool, nothing to schedule; one execution
        calls = []

        def f(x):
            calls.append(x)
            if raise_at is not None and x == raise_at:
                from tcv.gates import Raise
                raise Raise(x)
            return _EXC.setdefault(x, ValueError(x)) if (ret_exc and x % 2) else ('r', x)
        out = {}
        try:
            out['result'] = th.parallel_map(f, (x for x in xs) if case['gen'] else list(xs), threads=1, sort=case['sort'], use_tqdm=True, total=case['total'], chunksize=cs) \
                if case['impl'] == 'threading' else it.parallel_map(f, (x for x in xs) if case['gen'] else list(xs), threads=1)
        except Exception as e:  # noqa
            out['exc'] = (type(e).__name__, e.args[0] if e.args else None)
        out['calls'] = calls
        out['points'] = []
        runs = [([], out)]
    else:
        from tcv.core import HarnessError
        from tcv.gates import explore
        def one(prefix):
            with _Deadline(60):
                return h.execute(call, prefix, capacity, raise_at=raise_at)
        try:
            runs = list(explore(one))
        except TimeoutError as e:
            res.add('evaluations')
            res.violations.append(Violation(f'parallel_map[{case["impl"]}] hangs', f'case={case}: a controlled execution did not come back ({e}); state left by an earlier call in this process?',
                                            {'kind': 'pmap', 'case': case, 'choices': []}))
            return res
        except HarnessError as e:
            if 'out of range' not in str(e) and 'divergence' not in str(e):
                raise
            # the controller derives how many calls can be in flight from (threads, chunk size): more or fewer than that means the
            # input is not processed in consecutive chunks of the requested size
            res.add('evaluations')
            res.violations.append(Violation(f'parallel_map[{case["impl"]}] calls in flight do not follow chunks of the requested size',
                                            f'case={case}: {str(e)[:200]}', {'kind': 'pmap', 'case': case, 'choices': []}))
            runs = []

    orders = set()
    for prefix, out in runs:
        res.add('evaluations')
        res.add('transitions', max(1, len(out['points'])))
        orders.add(tuple(out.get('released', ())))
        bad = _judge(case, xs, expected, raise_at, out)
        if bad:
            kind, msg = bad
            res.violations.append(Violation(
                signature=f'parallel_map[{case["impl"]}] {kind}',
                what=f'case={case} xs={xs} choices={[p[1] for p in out["points"]]}: {msg}',
                case={'kind': 'pmap', 'case': case, 'choices': [p[1] for p in out['points']]}))
    if raise_at is not None:
        # cross-call state: after a call that propagated an exception, an ordinary call with the same thread count works
        try:
            xs2 = [7, 5, 6]
            with _Deadline(30):
                r2 = th.parallel_map(lambda x: ('again', x), xs2, threads=threads, use_tqdm=True, chunksize=2) if case['impl'] == 'threading' else it.parallel_map(lambda x: ('again', x), xs2, threads=threads)
            ok2 = r2 == [('again', x) for x in xs2]
            msg2 = repr(r2)
        except Exception as e:  # noqa
            ok2, msg2 = False, f'{type(e).__name__}: {e}'
        res.add('evaluations')
        if not ok2:
            res.violations.append(Violation(f'parallel_map[{case["impl"]}] call after a failed call is broken', f'case={case}: a later ordinary call with threads={threads} gave {msg2}',
                                            {'kind': 'pmap', 'case': case, 'choices': []}))
    res.coverage['schedules_by_case'] = {}
    res.add('distinct_nontrivial', len(orders) if len(orders) > 1 else 0)
    res.add('states', len(orders))
    if n >= 3 and threads >= 2:
        res.sample({'case': case, 'completion_orders_explored': len(orders)}, limit=2)
    return res


_EXC = {}


def _judge(case, xs, expected, raise_at, out):
    n = len(xs)
    if case.get('ret_exc'):
        expected = [(_EXC.setdefault(x, ValueError(x)) if x % 2 else e) for x, e in zip(xs, expected)]
    if raise_at is not None:
        if 'exc' not in out:
            return 'exception-lost', f'element {raise_at} raises but the call returned {out.get("result")!r}'
        if out['exc'] != ('Raise', raise_at):
            return 'wrong-exception', f'expected Raise({raise_at}), got {out["exc"]}'
        from collections import Counter
        c = Counter(out['calls'])
        if any(v > 1 for k, v in c.items() if xs.count(k) == 1):
            return 'called-twice', f'calls={out["calls"]}'
        return None
    if 'exc' in out:
        return 'unexpected-exception', f'{out["exc"]}'
    result = out['result']
    from collections import Counter
    if Counter(out['calls']) != Counter(xs):
        return 'call-count', f'f called with {sorted(out["calls"])} for input {xs}'
    if not isinstance(result, list):
        return 'not-a-list', repr(result)
    if case['sort'] or case['threads'] == 1:
        if result != expected:
            return 'order', f'result {result} != sequential map {expected}'
    else:
        cs = case['chunksize']
        if len(result) != n:
            return 'length', f'{result}'
        for i in range(0, n, cs):
            if Counter(result[i:i + cs]) != Counter(expected[i:i + cs]):
                return 'unsorted-not-permutation-within-chunk', f'result {result} vs {expected} chunksize {cs}'
    return None


def _check_stop_iteration():
    """an exception raised by f is propagated - also StopIteration (sequential path: it must not read as 'input exhausted')"""
    import taskchain.utils.iter as it
    import taskchain.utils.threading as th

    import tcv

    tcv.quiet_library()
    res = Result()
    _harness('threading')
    for impl, fn in (('threading', lambda f, xs: th.parallel_map(f, xs, threads=1, use_tqdm=True, chunksize=2)), ('threading-notqdm', lambda f, xs: th.parallel_map(f, xs, threads=1, use_tqdm=False)),
                     ('iter', lambda f, xs: it.parallel_map(f, xs, threads=1))):
        for at in (0, 2, 4):
            xs = [10, 11, 12, 13, 14]

            def f(x):
                if x == xs[at]:
                    raise StopIteration('from f')
                return ('r', x)
            res.add('evaluations')
            res.add('transitions')
            try:
                r = fn(f, list(xs))
                res.violations.append(Violation(f'parallel_map[{impl}] exception-lost', f'threads=1, f raises StopIteration at element {at}: the call returned {r!r} instead of propagating',
                                                {'kind': 'stopiter'}))
            except (StopIteration, RuntimeError):
                pass
    return res


class _Deadline:
    """a call that does not come back within `seconds` is interrupted with TimeoutError (main thread only): a changed library may hang, the
    check must not"""

    def __init__(self, seconds):
        self.seconds = seconds

    def __enter__(self):
        import signal

        def on_alarm(signum, frame):
            raise TimeoutError(f'no answer within {self.seconds} s')
        self._old = signal.signal(signal.SIGALRM, on_alarm)
        signal.setitimer(signal.ITIMER_REAL, self.seconds)
        return self

    def __exit__(self, *a):
        import signal

        signal.setitimer(signal.ITIMER_REAL, 0)
        signal.signal(signal.SIGALRM, self._old)
        return False


def _check_stop_iteration_threads():
    """StopIteration raised by f with threads > 1: the call ends with an exception (StopIteration itself, or the RuntimeError Python makes of
    it) - it neither returns a list nor hangs. Run in a fresh interpreter with a deadline: a hang must not take the check with it."""
    import subprocess
    import sys

    import tcv

    res = Result()
    code = '''
import sys, warnings
warnings.filterwarnings('ignore')
sys.path.insert(0, %r)
import logging
logging.disable(logging.CRITICAL)
impl, threads, at = sys.argv[1], int(sys.argv[2]), int(sys.argv[3])
if impl == 'threading':
    from taskchain.utils.threading import parallel_map
    call = lambda f, xs: parallel_map(f, xs, threads=threads, use_tqdm=False, chunksize=3)
else:
    from taskchain.utils.iter import parallel_map
    import taskchain.utils.iter as it
    it.tqdm = lambda d=None, **k: d
    call = lambda f, xs: parallel_map(f, xs, threads=threads)
xs = [10, 11, 12, 13, 14]
def f(x):
    if x == xs[at]:
        raise StopIteration('from f')
    return x
try:
    r = call(f, list(xs))
    print('RETURNED', r)
except StopIteration:
    print('RAISED StopIteration')
except RuntimeError as e:
    print('RAISED RuntimeError', type(e.__cause__).__name__)
except BaseException as e:
    print('RAISED', type(e).__name__)
''' % (tcv.REPO + '/src')
    for impl in ('threading', 'iter'):
        for threads in (2, 3):
            for at in (0, 3):
                res.add('evaluations')
                res.add('transitions')
                case = {'kind': 'stopiter-threads', 'impl': impl, 'threads': threads, 'at': at}
                try:
                    p = subprocess.run([sys.executable, '-c', code, impl, str(threads), str(at)], capture_output=True, text=True, timeout=30)
                    out = (p.stdout.strip().splitlines() or ['(no output)'])[-1]
                except subprocess.TimeoutExpired:
                    out = 'HANG (no answer within 30 s)'
                if not (out.startswith('RAISED StopIteration') or out.startswith('RAISED RuntimeError')):
                    kind = 'hangs' if out.startswith('HANG') else 'exception-lost'
                    res.violations.append(Violation(f'parallel_map[{impl}] {kind}', f'threads={threads}, f raises StopIteration at element {at}: {out}', case))
    return res


def _check_chunk_isolation():
    """sort=False: the result is a permutation of the outputs WITHIN each chunk - so no element of a later chunk may overtake an element of an
    earlier one, however long the earlier one takes and however many threads are idle"""
    import threading as _t
    import time
    from collections import Counter

    import tcv
    import taskchain.utils.threading as th

    tcv.quiet_library()
    res = Result()
    for n, threads, cs in ((6, 4, 2), (7, 3, 2), (5, 5, 1), (8, 4, 3)):
        xs = list(range(n))
        later_started = _t.Event()

        def f(x, cs=cs, ev=later_started):
            if x >= cs:
                ev.set()
                return x * 10
            ev.wait(0.4)      # an element of the first chunk: slow, and slower still if a later chunk is already running
            time.sleep(0.05)
            return x * 10
        res.add('evaluations')
        res.add('transitions')
        case = {'kind': 'isolation', 'n': n, 'threads': threads, 'chunksize': cs}
        try:
            with _Deadline(30):
                r = th.parallel_map(f, xs, threads=threads, chunksize=cs, sort=False, use_tqdm=False)
        except TimeoutError as e:
            res.violations.append(Violation('parallel_map[threading] hangs', f'{case}: {e}', case))
            return res
        except Exception as e:  # noqa
            res.violations.append(Violation('parallel_map[threading] unexpected-exception', f'{case}: {type(e).__name__}: {e}', case))
            continue
        exp = [x * 10 for x in xs]
        if len(r) != n or any(Counter(r[i:i + cs]) != Counter(exp[i:i + cs]) for i in range(0, n, cs)):
            res.violations.append(Violation('parallel_map[threading] unsorted-not-permutation-within-chunk', f'{case}: slow first chunk: result {r}, chunks of {exp}', case))
    return res


def _check_exception_types():
    """whatever f raises is what the caller gets, and no element is given to f twice - for every kind of exception, also the ones the
    machinery itself may raise or catch (RuntimeError and its subclasses, StopIteration, KeyError, OSError)"""
    import threading as _t

    import taskchain.utils.iter as it
    import taskchain.utils.threading as th

    import tcv

    tcv.quiet_library()
    res = Result()
    _harness('threading')

    class Custom(RuntimeError):
        pass
    for exc_type in (RuntimeError, NotImplementedError, RecursionError, Custom, KeyError, OSError, ValueError, LookupError, AssertionError, TimeoutError):
        for impl, fn in (('threading', lambda f, xs, t: th.parallel_map(f, xs, threads=t, use_tqdm=False, chunksize=3)), ('iter', lambda f, xs, t: it.parallel_map(f, xs, threads=t))):
            for threads in (1, 2, 3):
                for transient in (False, True):
                    xs = [10, 11, 12, 13, 14, 15, 16]
                    calls = []
                    lock = _t.Lock()

                    def f(x):
                        with lock:
                            calls.append(x)
                            first = calls.count(x) == 1
                        if x == 14 and (first or not transient):
                            raise exc_type('from f')
                        return ('r', x)
                    res.add('evaluations')
                    res.add('transitions')
                    case = {'kind': 'exctype', 'exc': exc_type.__name__, 'impl': impl, 'threads': threads}
                    try:
                        with _Deadline(30):
                            r = fn(f, list(xs), threads)
                        res.violations.append(Violation(f'parallel_map[{impl}] exception-lost', f'threads={threads}, f raises {exc_type.__name__} at 14{" (first call only)" if transient else ""}: '
                                                        f'the call returned {r!r}', case))
                    except TimeoutError as e:
                        if exc_type is not TimeoutError or e.args != ('from f',):
                            res.violations.append(Violation(f'parallel_map[{impl}] hangs', f'threads={threads}, f raises {exc_type.__name__} at 14: {e}', case))
                            return res   # the interpreter's pool / loop state is unknown from here on
                    except exc_type as e:
                        if e.args != ('from f',):
                            res.violations.append(Violation(f'parallel_map[{impl}] wrong-exception', f'threads={threads}: {type(e).__name__}{e.args}', case))
                    except Exception as e:  # noqa
                        res.violations.append(Violation(f'parallel_map[{impl}] wrong-exception', f'threads={threads}, f raises {exc_type.__name__}: caller gets {type(e).__name__}: {e}', case))
                    twice = sorted({x for x in calls if calls.count(x) > 1})
                    if twice:
                        res.violations.append(Violation(f'parallel_map[{impl}] called-twice', f'threads={threads}, f raises {exc_type.__name__} at 14: f was called more than once for {twice}', case))
    return res


def _check_chunked(tier):
    from taskchain.utils.iter import chunked

    res = Result()
    lmax, smax = (8, 9) if tier == 'quick' else (14, 16)
    for length in range(0, lmax):
        for size in range(1, smax):
            import collections
            for kind in ('list', 'iter', 'gen', 'tuple', 'str', 'dict', 'defaultdict', 'deque', 'keys', 'range', 'array', 'frame', 'nones', 'tailnone', 'falsy'):
                src = list(range(10, 10 + length))
                if kind == 'frame':
                    import pandas as pd
                    data = pd.DataFrame({f'c{i}': [0] * 3 for i in src})   # sized, subscriptable, iterates over column labels
                    src = [f'c{i}' for i in src]
                elif kind in ('nones', 'tailnone', 'falsy'):
                    # elements that look like padding / "nothing": None, 0, '', [] are elements like any other
                    src = {'nones': [None] * length, 'tailnone': src[:-1] + [None] if length else [], 'falsy': [(None, 0, '', [], False)[i % 5] for i in range(length)]}[kind]
                    data = list(src)
                elif kind == 'array':
                    import numpy as np
                    data = np.array(src)
                else:
                    data = {'list': src, 'iter': iter(src), 'gen': (x for x in src), 'tuple': tuple(src), 'str': ''.join(chr(97 + i) for i in range(length)),
                            'dict': {x: str(x) for x in src}, 'defaultdict': collections.defaultdict(list, {x: [] for x in src}), 'deque': collections.deque(src),
                            'keys': {x: 1 for x in src}.keys(), 'range': range(10, 10 + length)}[kind]
                items = list(data) if kind == 'str' else src
                try:
                    got = list(chunked(data, size))
                    if kind == 'array':
                        got = [[int(x) for x in c] if type(c) is list else c for c in got]
                except Exception as e:  # noqa
                    got = f'{type(e).__name__}: {e}'
                if kind == 'defaultdict' and len(data) != length:
                    got = f'input changed: {len(data)} keys'
                res.add('evaluations')
                res.add('transitions')
                exp = [items[i:i + size] for i in range(0, length, size)]
                if length % size == 0 or length == 0:
                    res.add('distinct_nontrivial')
                if got != exp or any(type(c) is not list for c in got):  # noqa
                    res.violations.append(Violation(
                        signature='chunked wrong-chunks',
                        what=f'chunked({kind} of length {length}, {size}) -> {got}, expected {exp}',
                        case={'kind': 'chunked', 'length': length, 'size': size, 'src': kind}))
    res.add('states', lmax * (smax - 1))
    return res


class _LazyLen:
    """a collection that knows its length only after it has been iterated (a lazily fetched result set): falsy, len() == 0 beforehand"""

    def __init__(self, xs):
        self._xs, self._n = list(xs), 0

    def __len__(self):
        return self._n

    def __iter__(self):
        self._n = len(self._xs)
        return iter(self._xs)


class _FalsyIterable:
    def __init__(self, xs):
        self._xs = list(xs)

    def __bool__(self):
        return False

    def __iter__(self):
        return iter(self._xs)


def _check_map_iterable_kinds():
    """parallel_map over every kind of iterable (not only lists and generators): array-likes whose truth value is ambiguous or False
    although they have elements, lazily sized collections, views; both implementations, sequential and threaded path"""
    import collections
    import numpy as np
    import pandas as pd
    import taskchain.utils.iter as it
    import taskchain.utils.threading as th

    res = Result()

    def kinds(n):
        src = list(range(n))
        return {'list': src, 'tuple': tuple(src), 'range': range(n), 'deque': collections.deque(src), 'keys': {x: 1 for x in src}.keys(), 'set-of-one': set(src[:1]),
                'array': np.array(src, dtype=int), 'array-zeros': np.zeros(n, dtype=int), 'array-float0': np.zeros(n), 'array-2d': np.arange(2 * n).reshape(n, 2) if n else np.zeros((0, 2)),
                'series': pd.Series(src, dtype='int64'), 'index': pd.Index(src, dtype='int64'), 'lazy-len': _LazyLen(src), 'falsy-iterable': _FalsyIterable(src), 'iter': iter(src), 'map': map(int, src)}

    def f(x):
        return ('r', repr(np.asarray(x).tolist()))

    for impl in ('threading', 'iter'):
        for n in (0, 1, 3, 5):
            for threads in (1, 3):
                for cs in ((2, 1000) if impl == 'threading' else (None,)):
                    for kind, data in kinds(n).items():
                        want = [f(x) for x in kinds(n)[kind]]
                        case = {'kind': 'map-iterables', 'impl': impl}
                        label = f'parallel_map[{impl}](f, {kind} of {n} elements, threads={threads}' + (f', chunksize={cs})' if cs else ')')
                        try:
                            with _Deadline(60):
                                got = th.parallel_map(f, data, threads=threads, use_tqdm=False, chunksize=cs) if impl == 'threading' else it.parallel_map(f, data, threads=threads)
                        except Exception as e:  # noqa
                            got = f'{type(e).__name__}: {e}'
                        res.add('evaluations')
                        res.add('transitions')
                        if got != want:
                            res.violations.append(Violation(f'parallel_map[{impl}] iterable kinds: result differs from the sequential map', f'{label} -> {str(got)[:200]}, expected {want}', case))
    return res


def run(tier, seed):
    cases = _cases(tier)
    k = seed % max(1, len(cases))
    cases = cases[k:] + cases[:k]
    res = Result()
    ck = _check_chunked(tier)
    ck.merge(_check_exception_types())
    ck.merge(_check_stop_iteration_threads())
    ck.merge(_check_chunk_isolation())
    ck.merge(_check_map_iterable_kinds())
    res.merge(ck)
    res.merge(_check_stop_iteration())
    if ck.violations:
        # the completion-order controller relies on chunks having the requested size: explore only the unchunked members
        cases = [c for c in cases if c['impl'] == 'iter' or c['chunksize'] >= 1000]
    for r in pmap(_run_case, cases, chunksize=4):
        res.merge(r)
    res.coverage.pop('schedules_by_case', None)
    cov = res.coverage
    cov['family_members'] = len(cases)
    cov['traces_validated_against_impl'] = cov['evaluations']
    cov['exhaustive'] = True
    cov['rule'] = ('every (n<=%d, threads in 1..4, chunksize in {1,2,3,n,1000}, sort, list|generator, raising position) x EVERY worker completion order '
                   '(choice = which in-flight call finishes next); distinct_nontrivial = distinct completion orders in members that have more than one; '
                   'chunked: every (length, size, iterable kind)') % (4 if tier == 'quick' else 6)
    res.assumptions += ['completion order is owned through a proxy of asyncio.as_completed bound into the library module and gates inside the mapped function',
                        'with sort=False only "permutation within each chunk, chunks in order" is demanded']
    return res


def replay(case):
    import tcv

    tcv.quiet_library()
    if case['kind'] == 'isolation':
        return [v for v in _check_chunk_isolation().violations if v.case == case]
    if case['kind'] == 'stopiter-threads':
        return [v for v in _check_stop_iteration_threads().violations if v.case == case]
    if case['kind'] == 'exctype':
        return [v for v in _check_exception_types().violations if v.case == case]
    if case['kind'] == 'stopiter':
        return _check_stop_iteration().violations
    if case['kind'] == 'chunked':
        from taskchain.utils.iter import chunked
        length, size, kind = case['length'], case['size'], case['src']
        src = list(range(10, 10 + length))
        data = {'list': src, 'iter': iter(src), 'gen': (x for x in src), 'tuple': tuple(src), 'str': ''.join(chr(97 + i) for i in range(length))}[kind]
        items = list(data) if kind == 'str' else src
        got = list(chunked(data, size))
        exp = [items[i:i + size] for i in range(0, length, size)]
        if got != exp:
            return [Violation('chunked wrong-chunks', f'chunked(length {length}, {size}) -> {got}, expected {exp}', case)]
        return []
    r = _run_case(case['case'])
    want = case['choices']
    return [v for v in r.violations if v.case['choices'] == want] or r.violations[:1] if r.violations else []
