"""C20 - migration to parameter mode carries every result over unchanged.

X x H: for file-based pipelines (files and directory results): every subset of tasks with a stored name-mode result
(reached by value requests and deletions), then every sequence of length <= 3 over {migrate(dry=True), migrate(dry=False)}.
After a real migration the parameter-mode chain on the target has a result for exactly the tasks that had one, loads equal
values and runs nothing; the source tree (files, directories, contents) is identical before and after every call; a
second migration leaves the target unchanged; dry=True writes no result file.
"""
import io
import itertools
import os
from contextlib import redirect_stdout
from pathlib import Path

from tcv import families, fsops, refmodel, scratch, worlds
from tcv.core import Result, Violation
from tcv.pool import pmap

P, bc = families.P, families.by_class


def types_world():
    kinds = ['json', 'numpy', 'dir', 'generator', 'list_of_numpy', 'pandas', 'continues']
    tasks = {}
    prev = None
    for n, k in enumerate(kinds):
        key = f'T{n}'
        tasks[key] = {'params': [P('p0', default=1)] if prev is None else [], 'inputs': [bc(prev)] if prev else [], 'data': k}
        prev = key
    return {'name': 'types', 'tasks': tasks, 'configs': {'root': {'medium': 'json', 'tasks': list(tasks), 'values': {}}}, 'root': 'root', 'variants': {'v0': []}}


def two_parameterless():
    """two different tasks with the same (empty) parameters and the same input: equal hashes in different task directories"""
    return {'name': 'samehash', 'tasks': {
        'R': {'name': 'raw', 'params': [], 'inputs': [], 'data': 'json'},
        'E': {'name': 'evens', 'params': [], 'inputs': [bc('R')], 'data': 'json'},
        'O': {'name': 'odds', 'params': [], 'inputs': [bc('R')], 'data': 'dirlink'}},
        'configs': {'root': {'medium': 'yaml', 'tasks': ['R', 'E', 'O'], 'values': {}}}, 'root': 'root', 'variants': {'v0': []}}


def chain3():
    d = families.chain3(kinds=('json', 'numpy', 'dir'))
    d['variants'] = {'v0': []}
    return d


def dotted():
    """a config whose NAME contains dots (segmentation.v2.yaml), with file, directory and resumable results"""
    d = families.chain3(kinds=('dir', 'json', 'continues'))
    d['name'] = 'dotted'
    d['configs']['root']['medium'] = 'yaml'
    d['configs']['root']['file'] = 'segmentation.v2.yaml'
    d['variants'] = {'v0': []}
    return d


def diamond():
    d = families.diamond()
    d['variants'] = {'v0': []}
    return d


def uses_ns():
    """a used config under a namespace (name mode stores it under the used config's own name)"""
    return {'name': 'usesns', 'tasks': {
        'A': {'params': [P('pa', default=0)], 'inputs': [], 'data': 'json'},
        'B': {'params': [], 'inputs': [families.by_name('n::a')], 'data': 'json'}},
        'configs': {'root': {'medium': 'json', 'tasks': ['B'], 'values': {}, 'uses': [{'config': 'low', 'as': 'n'}]},
                    'low': {'medium': 'yaml', 'tasks': ['A'], 'values': {'pa': 1}}}, 'root': 'root', 'variants': {'v0': []}}


def twofiles():
    """the same task under two namespaces, declared by two different config files with identical parameters"""
    return {'name': 'twofiles', 'tasks': {
        'X': {'params': [P('px', default=0)], 'inputs': [], 'data': 'json'},
        'Z': {'params': [], 'inputs': [families.by_name('n1::x'), families.by_name('n2::x')], 'data': 'json'}},
        'configs': {'root': {'medium': 'json', 'tasks': ['Z'], 'values': {}, 'uses': [{'config': 'sa', 'as': 'n1'}, {'config': 'sb', 'as': 'n2'}]},
                    'sa': {'medium': 'json', 'tasks': ['X'], 'values': {'px': 1}}, 'sb': {'medium': 'yaml', 'tasks': ['X'], 'values': {'px': 1}}}, 'root': 'root', 'variants': {'v0': []}}


def twons_diff():
    """the same task under two namespaces with DIFFERENT parameters (two config files): results must not be swapped"""
    d = twofiles()
    d['name'] = 'twonsdiff'
    d['configs']['sb']['values'] = {'px': 2}
    return d


def parts_nonmain():
    """the migrated config is a part of a multi-config file that is NOT the main part"""
    return {'name': 'partsnonmain', 'tasks': {
        'A': {'params': [P('pa')], 'inputs': [], 'data': 'json'},
        'B': {'params': [P('pb', default=0)], 'inputs': [bc('A')], 'data': 'numpy'}},
        'configs': {
            'other': {'medium': 'part', 'file': 'multi.yaml', 'ext': 'yaml', 'part': 'other', 'main_part': True, 'tasks': ['A'], 'values': {'pa': 99}},
            'mine': {'medium': 'part', 'file': 'multi.yaml', 'ext': 'yaml', 'part': 'mine', 'tasks': ['A', 'B'], 'values': {'pa': 1, 'pb': 2}}},
        'root': 'mine', 'variants': {'v0': []}}


def empties():
    """legitimately EMPTY stored results (zero generated items, zero arrays, an empty directory)"""
    return {'name': 'empties', 'tasks': {
        'G': {'params': [P('pg', default=0)], 'inputs': [], 'data': 'generator0'},
        'L': {'params': [], 'inputs': [bc('G')], 'data': 'lon0'},
        'D': {'params': [], 'inputs': [bc('L')], 'data': 'dir0'},
        'E': {'params': [], 'inputs': [bc('D')], 'data': 'json'}},
        'configs': {'root': {'medium': 'json', 'tasks': ['G', 'L', 'D', 'E'], 'values': {}}}, 'root': 'root', 'variants': {'v0': []}}


def resumable():
    """a resumable (ContinuesData) task; the target may already hold the work directory of an interrupted run"""
    return {'name': 'resumable', 'tasks': {
        'A': {'params': [P('pa', default=0)], 'inputs': [], 'data': 'json'},
        'R': {'params': [], 'inputs': [bc('A')], 'data': 'continues'}},
        'configs': {'root': {'medium': 'json', 'tasks': ['A', 'R'], 'values': {}}}, 'root': 'root', 'variants': {'v0': []}}


def topns():
    """the migrated Config is itself given a namespace"""
    d = chain3()
    d['name'] = 'topns'
    d['_top_namespace'] = 'ns'
    return d


def topname():
    """the migrated Config carries an explicit name= different from its file name: name-mode results live under THAT name"""
    d = chain3()
    d['name'] = 'topname'
    d['_top_name'] = 'experiment_7'
    return d


def parts_twice():
    """the main part of a multi-config file uses two OTHER parts of the same file under different namespaces; both declare the same
    task with different values"""
    return {'name': 'partstwice', 'tasks': {
        'A': {'params': [P('pa')], 'inputs': [], 'data': 'json'},
        'Z': {'params': [], 'inputs': [families.by_name('s::a'), families.by_name('b::a')], 'data': 'json'}},
        'configs': {
            'top': {'medium': 'part', 'file': 'models.yaml', 'ext': 'yaml', 'part': 'top', 'main_part': True, 'tasks': ['Z'], 'values': {},
                    'uses': [{'config': 'small', 'as': 's'}, {'config': 'big', 'as': 'b'}]},
            'small': {'medium': 'part', 'file': 'models.yaml', 'ext': 'yaml', 'part': 'small', 'tasks': ['A'], 'values': {'pa': 2}},
            'big': {'medium': 'part', 'file': 'models.yaml', 'ext': 'yaml', 'part': 'big', 'tasks': ['A'], 'values': {'pa': 5}}},
        'root': 'top', 'variants': {'v0': []}}


WORLDS = {'topname': topname, 'partstwice': parts_twice, 'topns': topns, 'dotted': dotted, 'twonsdiff': twons_diff, 'empties': empties, 'resumable': resumable, 'chain3': chain3, 'diamond': diamond, 'types': types_world, 'samehash': two_parameterless, 'usesns': uses_ns, 'twofiles': twofiles, 'partsnonmain': parts_nonmain}


def listing(root):
    if not os.path.exists(root):
        return []
    return fsops.tree_digest(root, listing=True)


def content_listing(root):
    """directory content as a reader sees it: symlinks are followed (a migrated copy may hold the linked content itself)"""
    import hashlib
    out = []
    for r, ds, fs in os.walk(root, followlinks=True):
        ds.sort()
        rel = os.path.relpath(r, root)
        out.append((rel + '/', 'd'))
        for f in sorted(fs):
            p_ = os.path.join(r, f)
            try:
                out.append((os.path.join(rel, f), hashlib.sha1(open(p_, 'rb').read()).hexdigest()[:12]))
            except OSError as e:
                out.append((os.path.join(rel, f), f'unreadable:{type(e).__name__}'))
    return out


def classify_source_change(before, after):
    b, a = dict(before), dict(after)
    added = sorted(set(a) - set(b))
    removed = sorted(set(b) - set(a))
    changed = sorted(k for k in set(a) & set(b) if a[k] != b[k])
    if changed or any(a[k] != 'd' for k in added) or any(b[k] != 'd' for k in removed):
        return 'files', f'added {added} removed {removed} changed {changed}'
    if all(k.rstrip('/').endswith('_tmp') or k.count('/') <= 1 or True for k in added) and all(k.rstrip('/').endswith('_tmp') for k in removed):
        return 'dirs-only', f'directories created {added}, removed {removed}'
    return 'dirs', f'added {added} removed {removed}'


def run_case(wname, present, seq):
    """present: tuple of bools per task (has a name-mode result); seq: tuple of dry flags"""
    from taskchain.utils.migration import migrate_to_parameter_mode

    out = []
    desc = WORLDS[wname]()
    root = scratch.fresh('c20')
    w = worlds.World(desc, root)
    case = {'world': wname, 'present': list(present), 'seq': list(seq)}
    try:
        src = os.path.join(root, 'src')
        tgt = os.path.join(root, 'tgt')
        m = refmodel.Model(w.variant('v0'), w.modname)
        names = sorted(m.tasks)
        ch = w.chain('v0', base_dir=src, parameter_mode=False)
        for fn in names:
            _ = ch.tasks[fn].value
        import shutil
        for fn, keep in zip(names, present):
            if not keep:
                p_ = ch.tasks[fn].data_path  # removed by the harness itself (not through the library)
                if p_ is not None and p_.exists():
                    shutil.rmtree(p_) if p_.is_dir() else p_.unlink()
        # a present result that links a deleted one is itself no longer a complete result: not a valid initial store
        for r_, ds, fs in os.walk(src):
            for f_ in fs + ds:
                q = os.path.join(r_, f_)
                if os.path.islink(q) and not os.path.exists(q):
                    return [], case
        # what the store holds, decided by the harness from the files (the library is not asked)
        had = set()
        for fn in names:
            kind = m.tasks[fn].decl.get('data', 'json')
            rel = m.relpath(fn, name_mode_config=m.config_name(m.tasks[fn].mount[1]))
            if os.path.exists(os.path.join(src, rel)):
                had.add(fn)
        # remove work directories left by the harness's own use of the library, then snapshot
        for r_, ds, fs in os.walk(src):
            for d_ in list(ds):
                if d_.endswith('_tmp'):
                    import shutil
                    shutil.rmtree(os.path.join(r_, d_))
                    ds.remove(d_)
        if wname == 'resumable' and 'r' in names and 'r' not in had:
            # the resumable task was interrupted in the SOURCE as well: its work directory holds the progress made so far (no result yet)
            w.rt.faults['R'] = ['raise_partial']
            try:
                _ = w.chain('v0', base_dir=src, parameter_mode=False).tasks['r'].value
            except Exception:  # noqa
                pass
            w.rt.faults.clear()
            from tcv.histories import Exec
            Exec._detach_handlers(None)
        snap = listing(src)
        if wname == 'resumable':
            # somebody already tried the parameter-mode chain on the target and the resumable task died part way
            w.rt.faults['R'] = ['raise_partial']
            try:
                _ = w.chain('v0', base_dir=tgt)['r'].value
            except Exception:  # noqa
                pass
            w.rt.faults.clear()
            from tcv.histories import Exec
            Exec._detach_handlers(None)
        pre_target = set()
        if os.path.exists(tgt):
            chp = w.chain('v0', base_dir=tgt)
            pre_target = {fn for fn in names if m.tasks[fn].decl.get('data', 'json') != 'inmemory' and chp.tasks[fn].has_data}
        src_results = {}
        for fn in names:
            rel = m.relpath(fn, name_mode_config=m.config_name(m.tasks[fn].mount[1]))
            p_ = os.path.join(src, rel)
            if os.path.isdir(p_):
                src_results[fn] = content_listing(p_)
        migrated = False
        tgt_after_real = None
        for i, dry in enumerate(seq):
            cfg = w.make_config('v0', base_dir=src)
            tgt_before = listing(tgt)
            try:
                with redirect_stdout(io.StringIO()):
                    migrate_to_parameter_mode(cfg, Path(tgt), dry=dry, verbose=bool(i % 2))
            except Exception as e:  # noqa
                out.append(('migration raised', f'call {i} (dry={dry}): {type(e).__name__}: {str(e)[:200]}'))
                return out, case
            now = listing(src)
            if now != snap:
                kind, msg = classify_source_change(snap, now)
                out.append((f'source directory modified by migration ({kind})', f'call {i} (dry={dry}): {msg}'))
                snap = now
            tgt_now = listing(tgt)
            if dry:
                new_files = [k for k, v in tgt_now if v != 'd' and (k, v) not in set(tgt_before)]
                if new_files:
                    out.append(('dry run wrote files to the target', f'call {i}: {new_files}'))
            else:
                if migrated:
                    if _results_only(tgt_now) != _results_only(tgt_after_real):
                        out.append(('second migration changed the target', f'call {i}'))
                migrated = True
                tgt_after_real = tgt_now
        if migrated:
            w.rt.log.clear()
            ch2 = w.chain('v0', base_dir=tgt)
            has = {fn for fn in names if m.tasks[fn].decl.get('data', 'json') != 'inmemory' and ch2.tasks[fn].has_data}
            # compared per computation: names that denote one shared computation in parameter mode have one location
            comp = lambda s_: {(m.tasks[fn].local, m.key(fn)) for fn in s_}  # noqa
            if comp(has) != comp(had | pre_target):
                out.append(('target does not hold results for exactly the tasks that had one', f'had {sorted(had)}, target has {sorted(has)}'))
            for fn in sorted((had - pre_target) & has):
                kind = m.tasks[fn].decl.get('data', 'json')
                mark = len(w.rt.log)
                try:
                    p = w.decode(ch2.tasks[fn].value, kind)
                except Exception as e:  # noqa
                    out.append(('migrated result cannot be loaded', f'{fn}: {type(e).__name__}: {str(e)[:200]}'))
                    continue
                if p['term'] != m.term(fn) and wname != 'empties':  # empty results carry no provenance term
                    out.append(('migrated value differs from the original', f'{fn}: {p["term"]} vs {m.term(fn)}'))
                if fn in src_results:
                    tl = content_listing(str(ch2.tasks[fn].data_path))
                    if tl != src_results[fn]:
                        out.append(('migrated directory result differs from the original directory', f'{fn}: {sorted(set(map(str, tl)) ^ set(map(str, src_results[fn])))[:6]}'))
                if len(w.rt.log) != mark:
                    out.append(('migrated task was run again', f'{fn}: {[r[0] for r in w.rt.log[mark:]]}'))
        return out, case
    finally:
        w.dispose()
        scratch.drop(root)


def same_directory_scenarios():
    """the target names the SOURCE directory itself under another spelling (trailing `x/..`, a str, a symlink, a relative path): the
    migration must not write its copies into the source - it refuses (as it does for the identical path object)"""
    from taskchain.utils.migration import migrate_to_parameter_mode

    out = []
    for spelling in ('dotdot', 'str', 'symlink', 'relative', 'identical'):
        root = scratch.fresh('c20s')
        w = worlds.World(chain3(), root)
        cwd = os.getcwd()
        try:
            src = os.path.join(root, 'src')
            ch = w.chain('v0', base_dir=src, parameter_mode=False)
            for t in ch.tasks.values():
                _ = t.value
            os.makedirs(os.path.join(root, 'x'))
            os.symlink(src, os.path.join(root, 'link'))
            os.chdir(root)
            target = {'dotdot': Path(root) / 'x' / '..' / 'src', 'str': src, 'symlink': Path(root) / 'link', 'relative': Path('src'), 'identical': Path(src)}[spelling]
            snap = _results_only(listing(src))
            try:
                with redirect_stdout(io.StringIO()):
                    migrate_to_parameter_mode(w.make_config('v0', base_dir=src), target, dry=False)
                refused = False
            except Exception:  # noqa
                refused = True
            now = _results_only(listing(src))
            if now != snap:
                new = sorted(set(map(str, now)) - set(map(str, snap)))
                out.append(('source directory modified by migration (target is the source directory)', f'target given as {spelling} spelling of the source directory '
                            f'({"refused" if refused else "accepted"}): new entries {new[:4]}'))
        finally:
            os.chdir(cwd)
            w.dispose()
            scratch.drop(root)
    return out


def dir_entries_scenarios():
    """directory results whose entries have names the library itself uses for other purposes elsewhere (`*_tmp`, `*_error`, dot files,
    `*.lock`, at the top and one level down): the migrated result is the SAME tree, byte for byte, for every subset of those entries
    (seed C20_o: `copytree(..., ignore=...)`). The entries are put into the stored source result before the migration - a directory
    result is whatever its run left in the directory."""
    from taskchain.utils.migration import migrate_to_parameter_mode

    def tree(path):
        path = Path(path)
        return sorted((str(q.relative_to(path)), None if q.is_dir() else q.read_bytes()) for q in path.rglob('*'))

    odd = [('.vocab', 'v'), ('enc_tmp/x.txt', 'x'), ('fit_error', 'e'), ('sub/.hidden', 'h'), ('sub/part_tmp', 'p'), ('model.lock', 'l'), ('empty_tmp/', None)]
    out = []
    subsets = [tuple(i == j for i in range(len(odd))) for j in range(len(odd))] + [tuple([True] * len(odd))]
    for chosen in subsets:
        root = scratch.fresh('c20d')
        w = worlds.World(families.chain3(kinds=('dir', 'json', 'dir')), root)
        try:
            src, tgt = os.path.join(root, 'src'), os.path.join(root, 'tgt')
            ch = w.chain('v0', base_dir=src, parameter_mode=False)
            for t in ch.tasks.values():
                _ = t.value
            dirs = {n: Path(t.data_path) for n, t in ch.tasks.items() if t.data_path is not None and Path(t.data_path).is_dir()}
            names = [o for o, c in zip(odd, chosen) if c]
            for d in dirs.values():
                for rel, text in names:
                    q = d / rel.rstrip('/')
                    if text is None:
                        q.mkdir(parents=True, exist_ok=True)
                    else:
                        q.parent.mkdir(parents=True, exist_ok=True)
                        q.write_text(text)
            before = {n: tree(d) for n, d in dirs.items()}
            try:
                with redirect_stdout(io.StringIO()):
                    migrate_to_parameter_mode(w.make_config('v0', base_dir=src), Path(tgt), dry=False)
            except Exception as e:  # noqa
                out.append(('direntries: migration raised', f'directory results holding {[r for r, _ in names]}: {type(e).__name__}: {e}'))
                continue
            ch2 = w.chain('v0', base_dir=tgt)
            for n, d in dirs.items():
                if tree(d) != before[n]:
                    out.append(('direntries: source result modified by migration', f'{n}: entries {[r for r, _ in names]}'))
                t2 = ch2.tasks[n]
                got = tree(t2.data_path) if t2.data_path is not None and Path(t2.data_path).is_dir() else None
                if got != before[n]:
                    lost = sorted(set(k for k, _ in before[n]) - set(k for k, _ in (got or [])))
                    out.append(('direntries: migrated directory result is not the original tree', f'{n}: directory result holding {[r for r, _ in names]}: missing {lost}' if got is not None else f'{n}: no directory result in the target'))
        finally:
            w.dispose()
            scratch.drop(root)
    return out, len(subsets)


def _results_only(lst):
    return sorted((k, v) for k, v in lst if not k.rstrip('/').endswith('_tmp'))


def _job(items):
    import tcv

    tcv.quiet_library()
    res = Result()
    for wname, present, seq in items:
        res.add('evaluations')
        res.add('transitions', len(seq) + 1)
        if any(present) and not all(seq):
            res.add('distinct_nontrivial')
        bad, case = run_case(wname, present, seq)
        for kind, msg in bad:
            res.violations.append(Violation(f'{wname}: {kind}', f'{wname}, stored before migration {present}, calls dry={list(seq)}: {msg}', case))
    return res


def run(tier, seed):
    items = []
    seqs = [s for n in (1, 2, 3) for s in itertools.product((True, False), repeat=n)]
    for wname in (['chain3', 'topns', 'topname', 'partstwice', 'dotted', 'samehash', 'usesns', 'types', 'twofiles', 'twonsdiff', 'partsnonmain', 'empties', 'resumable'] if tier == 'quick' else list(WORLDS)):
        desc = WORLDS[wname]()
        n = len(refmodel.Model(worlds.apply_variant(desc, 'v0'), 'x').tasks)
        subsets = list(itertools.product((True, False), repeat=n))
        if wname == 'types':
            subsets = [tuple(i != j for i in range(n)) for j in range(n)] + [tuple([True] * n), tuple([False] * n), tuple(i % 2 == 0 for i in range(n))] if tier == 'quick' else subsets
        for present in subsets:
            for seq in (seqs if (tier != 'quick' or wname == 'chain3') else [(False,), (True, False), (False, False), (True,)]):
                items.append((wname, present, seq))
    k = seed % len(items)
    items = items[k:] + items[:k]
    n = 64
    res = Result()
    for r in pmap(_job, [items[i::n] for i in range(n)]):
        res.merge(r)
    res.violations.extend(replay_same_dir())
    res.add('evaluations', 5)
    de = replay_dir_entries()
    res.violations.extend(de)
    res.add('evaluations', 8)
    res.coverage['dir_entry_subsets'] = 8
    res.coverage['cases'] = len(items)
    res.coverage['states'] = len(items)
    res.coverage['traces_validated_against_impl'] = res.coverage['evaluations']
    res.coverage['exhaustive'] = True
    res.coverage['rule'] = ('per world (chain with file and directory results, diamond, a line with one task per storable data class, two parameterless tasks with equal hashes, a used config '
                            'under a namespace): every present/absent subset of name-mode results x every sequence of length <= 3 over {dry, real} migration; distinct_nontrivial = cases with at '
                            'least one stored result and one real migration')
    res.sample({'world': 'chain3', 'present': [True, False, True], 'calls_dry': [True, False, False]})
    res.assumptions += ['the set of stored results is read from the files by the harness, not through the library']
    return res


def replay_dir_entries():
    return [Violation(k, m, {'direntries': True}) for k, m in dir_entries_scenarios()[0]]


def replay_same_dir():
    return [Violation(f'samedir: {k}', m, {'samedir': True}) for k, m in same_directory_scenarios()]


def replay(case):
    import tcv

    tcv.quiet_library()
    if case.get('samedir'):
        return replay_same_dir()
    if case.get('direntries'):
        return replay_dir_entries()
    bad, c = run_case(case['world'], tuple(case['present']), tuple(case['seq']))
    return [Violation(f'{case["world"]}: {k}', m, case) for k, m in bad]
