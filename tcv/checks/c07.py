"""C07 - forcing recomputes exactly what was asked.

Part A (X): every labelled DAG on <= n tasks x every non-empty set of named tasks x (recompute, delete_data) x every store
state (each result present/absent): Chain.force on a fresh chain; flags == descendant closure, deletions exact, recompute
runs every forced task exactly once; then every task is requested: forced ones run once and replace the stored result
(generation witness), unforced ones are served from storage.
Part B (H): histories over {new, value, chain force, task force, restart} on small DAGs.
"""
from itertools import combinations, product

from tcv import families, histories, specs
from tcv.core import Result, Violation
from tcv.pool import pmap

KINDS = ['json', 'dir', 'continues', 'numpy']


def dag_world(n, edges):
    tasks = {}
    for i in range(n):
        ins = [families.by_class(f'T{j}') for j in range(i) if (j, i) in edges]
        tasks[f'T{i}'] = {'params': [families.P('p', default=0)] if i == 0 else [], 'inputs': ins, 'data': KINDS[i % len(KINDS)]}
    return {
        'name': f'dag{n}:' + ','.join(f'{a}{b}' for a, b in sorted(edges)),
        'tasks': tasks,
        'configs': {'root': {'medium': 'json', 'tasks': list(tasks), 'values': {}}},
        'root': 'root',
        'variants': {'v0': [], 'v1': [[['configs', 'root', 'values', 'p'], 1]]},
    }


def twons_world():
    """the same pipeline mounted under two namespaces with different values: distinct task objects of one class"""
    bc = families.by_class
    return {
        'name': 'twons',
        'tasks': {
            'S': {'name': 's', 'params': [families.P('ps', default=0)], 'inputs': [], 'data': 'json'},
            'Cl': {'name': 'cl', 'params': [], 'inputs': [bc('S')], 'data': 'numpy'},
            'R': {'name': 'r', 'params': [], 'inputs': [bc('Cl')], 'data': 'dir'},
        },
        'configs': {'sub': {'medium': 'json', 'tasks': ['S', 'Cl', 'R'], 'values': {}},
                    'top': {'medium': 'json', 'tasks': [], 'values': {}, 'uses': [{'config': 'sub', 'as': 'n1'}, {'config': 'sub', 'as': 'n2'}]}},
        'root': 'top',
        'context': {'kind': 'dict', 'data': {}, 'for_namespaces': {'n1': {'ps': 1}, 'n2': {'ps': 2}}},
        'variants': {'v0': []},
    }


def all_dags(n):
    pairs = [(a, b) for b in range(n) for a in range(b)]
    for k in range(len(pairs) + 1):
        for es in combinations(pairs, k):
            yield frozenset(es)


def judge(desc, spec):
    def j(i, obs, exp, ex):
        op = obs['op']
        out = []
        hist = [o['op'] for o, _ in ex.steps]
        case = {'kind': 'hist', 'world': desc['name'], 'desc': desc, 'hist': hist}
        name = desc['name'].split(':')[0]
        if op[0] == 'new' and obs.get('error'):
            out.append(Violation(f'{name}: construction failed', f'{hist}: {obs["error"]}', case))
        elif op[0] == 'value':
            if obs['error'] is not None:
                if not (exp.get('error') and obs.get('fault')):
                    out.append(Violation(f'{name}: value request failed after forcing', f'history {hist}: {obs["error"]}\n{obs.get("tb", "")}', case))
                return out
            m = ex.model.slots[op[1]]['model']
            if obs['term'] != m.term(op[2]):
                out.append(Violation(f'{name}: wrong value', f'history {hist}: {obs["term"]} != {m.term(op[2])}', case))
            if sorted(obs['run_objs']) != sorted(exp['run_objs']):
                extra = [r[0] for r in obs['run_objs'] if r not in exp['run_objs']]
                missing = [r[0] for r in exp['run_objs'] if r not in obs['run_objs']]
                kind = 'forced task not recomputed' if missing else 'recomputed more than asked'
                out.append(Violation(f'{name}: {kind} on value request',
                                     f'history {hist}: run executed for {[r[0] for r in obs["run_objs"]]}, model predicts {[r[0] for r in exp["run_objs"]]}', case))
            elif obs['gen'] != exp['gen']:
                out.append(Violation(f'{name}: stored result not replaced by the recomputation',
                                     f'history {hist}: value carries generation {obs["gen"]}, expected {exp["gen"]}', case))
        elif op[0] == 'tforce':
            if obs.get('error'):
                out.append(Violation(f'{name}: Task.force raised', f'history {hist}: {obs["error"]}', case))
        elif op[0] == 'cforce':
            if obs.get('error'):
                out.append(Violation(f'{name}: Chain.force raised', f'history {hist}: {obs["error"]}', case))
            elif op[3]:
                er = exp['recompute_runs']
                if sorted(obs['run_objs']) != sorted([ex.model.lk(ex.model.slots[op[1]]['model'], r) for r in er['runs']]):
                    out.append(Violation(f'{name}: recompute=True did not run each forced task exactly once',
                                         f'history {hist}: ran {obs["runs"]}, model predicts {er["runs"]} (any order)', case))
        elif op[0] == 'inspect' and obs.get('error'):
            out.append(Violation(f'{name}: inspection raised', f'history {hist}: {obs["error"]}', case))
        elif op[0] == 'inspect':
            diff = {k: (obs['forced'][k], exp['forced'][k]) for k in obs['forced'] if exp['forced'][k] is not None and obs['forced'][k] != exp['forced'][k]}
            if diff:
                out.append(Violation(f'{name}: is_forced differs from the descendant closure', f'history {hist}: (impl, model) {diff}', case))
            if obs['has_data'] != exp['has_data']:
                diff = {k: (obs['has_data'][k], exp['has_data'][k]) for k in obs['has_data'] if obs['has_data'][k] != exp['has_data'][k]}
                out.append(Violation(f'{name}: stored results after force differ (delete_data)', f'history {hist}: (impl, model) {diff}', case))
            if obs['runs']:
                out.append(Violation(f'{name}: inspect ran something', f'{hist}: {obs["runs"]}', case))
        return out
    return j


def _part_a_cases(n, edges):
    names = [f't{i}' for i in range(n)]
    for k in range(1, n + 1):
        for named in combinations(names, k):
            for rec, dele in product((False, True), repeat=2):
                for present in product((True, False), repeat=n):
                    yield named, rec, dele, present


def _part_a_dag(args):
    import tcv

    tcv.quiet_library()
    n, edges, request_orders = args
    desc = dag_world(n, set(edges))
    sp = None
    jf = judge(desc, sp)
    res = Result()
    names = [f't{i}' for i in range(n)]
    outcomes = set()
    for named, rec, dele, present in _part_a_cases(n, edges):
        hist = [['new', 0, 'v0']] + [['value', 0, t] for t in names]
        hist += [['unlink', 0, t] for t, p in zip(names, present) if not p]
        hist += [['restart'], ['new', 0, 'v0'], ['cforce', 0, list(named), rec, dele], ['inspect', 0]]
        for order in request_orders:
            h = hist + [['value', 0, names[i]] for i in order(n)] + [['inspect', 0], ['restart'], ['new', 1, 'v0']] + [['value', 1, names[-1]], ['value', 1, names[0]]]
            vs, c, ov = histories.run_history(desc, h, jf)
            res.add('evaluations')
            res.add('transitions', len(h))
            outcomes.add(ov)
            res.violations.extend(vs[:2])
    # two force calls in a row on one chain (seed C07_o: a task that is already forced ignoring a later delete_data=True): the second
    # call is carried out in full whatever the first one marked - every ordered pair of named sets x flags of the second call
    if n == 3:
        sets = [c for k in range(1, n + 1) for c in combinations(names, k)]
        for first in [c for c in sets if len(c) in (1, n)]:
            for second in sets:
                for rec2, dele2 in ((False, True), (True, False), (True, True)):
                    h = [['new', 0, 'v0']] + [['value', 0, t] for t in names] + [['restart'], ['new', 0, 'v0'], ['cforce', 0, list(first), False, False],
                         ['cforce', 0, list(second), rec2, dele2], ['inspect', 0]] + [['value', 0, names[i]] for i in request_orders[0](n)] + [
                         ['inspect', 0], ['restart'], ['new', 1, 'v0'], ['value', 1, names[-1]], ['value', 1, names[0]]]
                    vs, c, ov = histories.run_history(desc, h, jf)
                    res.add('evaluations')
                    res.add('double_force_histories')
                    res.add('transitions', len(h))
                    outcomes.add(ov)
                    res.violations.extend(vs[:2])
    res.coverage['states'] = len(outcomes)
    res.coverage['distinct_nontrivial'] = len(outcomes)
    if len(edges) == n - 1 and n >= 3:
        res.sample({'dag': sorted(edges), 'example': h}, limit=1)
    return res


def _namemode_templates(_):
    """name mode, two configs whose names extend each other on one directory: forcing / deleting through one chain must not
    touch the other chain's results (every force set x flags x which chain forces)"""
    import tcv

    tcv.quiet_library()
    res = Result()
    # second names: one that merely extends the first, and the names the library gives to its own temporaries
    from tcv.checks.c04 import NAMEMODE_OTHERS, namemode_desc
    import os
    others = NAMEMODE_OTHERS if os.environ.get('VERIF_TIER') == 'thorough' else [o for o in NAMEMODE_OTHERS if o in (('exp_big', 'dir'), ('exp_tmp', 'json'), ('exp_tmp', 'dir'), ('exp_old', 'dir'))]
    for second, ck in others:
        desc = namemode_desc(second, ck)
        jf = judge(desc, None)
        for slot in (0, 1):
            for fs in (['a'], ['b'], ['c'], ['a', 'c']):
                for rec, dele in product((False, True), repeat=2):
                    tail = [['value', 0, 'c'], ['value', 1, 'c']] if (rec or not dele) else []   # forced, not yet recomputed: do it now, both results stored side by side
                    h = [['new', 0, 'exp'], ['value', 0, 'c'], ['new', 1, second], ['value', 1, 'c'], ['cforce', slot, fs, rec, dele], ['inspect', 0], ['inspect', 1]] + tail + [
                         ['restart'], ['new', 0, 'exp'], ['new', 1, second], ['inspect', 0], ['inspect', 1], ['value', 0, 'c'], ['value', 1, 'c'], ['value', 1, 'a'], ['value', 0, 'a']]
                    vs, c, ov = histories.run_history(desc, h, jf, parameter_mode=False)
                    res.add('evaluations')
                    res.add('transitions', len(h))
                    res.violations.extend(vs[:2])
    return res


def _failing_recompute_job(args):
    """Chain.force(named, recompute=True, delete_data=dele) in which the run of ONE forced task fails (raises / is interrupted):
    whatever the recompute loop managed to do, delete_data has removed the OLD results of exactly the forced tasks - a fresh
    chain finds, for each forced task, no result or a recomputed one, never the old one; unforced results are untouched"""
    import tcv
    from tcv import scratch, worlds

    tcv.quiet_library()
    n, edges = args
    desc = dag_world(n, set(edges))
    names = [f't{i}' for i in range(n)]
    res = Result()
    from tcv import refmodel
    root = scratch.fresh('c07f')
    w = worlds.World(desc, root)
    try:
        m = refmodel.Model(worlds.apply_variant(desc, 'v0'), w.modname)
        reach = m.closure()   # reach[a]: everything a requires
        m.depends = lambda a, b: b in reach[a]
        for k in range(1, n + 1):
            for named in combinations(names, k):
                forced = set(named)
                for t in names:
                    if any(m.depends(t, x) for x in named):
                        forced.add(t)
                for failing in sorted(forced):
                    for fault in ('raise', 'interrupt'):
                        for dele in (True, False):
                            base = scratch.fresh('c07fd')
                            w.rt.reset()
                            case = {'kind': 'failing-recompute', 'n': n, 'edges': sorted(edges)}
                            label = f'dag {sorted(edges)}, force({list(named)}, recompute=True, delete_data={dele}), run of {failing} fails ({fault})'
                            try:
                                ch = w.chain('v0', base_dir=base)
                                for t in names:
                                    _ = ch[t].value
                                ch2 = w.chain('v0', base_dir=base)
                                w.rt.faults[failing.upper()] = [fault]
                                try:
                                    ch2.force(list(named), recompute=True, delete_data=dele)
                                    res.violations.append(Violation('failing-recompute: the failure of a forced run is swallowed', label, case))
                                except (worlds.Fault, worlds.Interrupt):
                                    pass
                                histories.Exec._detach_handlers(None)
                                ch3 = w.chain('v0', base_dir=base)
                                for t in names:
                                    kind = desc['tasks'][t.upper()]['data']
                                    had = bool(ch3[t].has_data)
                                    gen = w.decode(ch3[t].value, kind)['gen'] if had else None
                                    if t in forced and dele and had and gen == 0:
                                        res.violations.append(Violation('failing-recompute: delete_data left the old result of a forced task in the store',
                                                                        f'{label}: a fresh chain loads the OLD result of {t}', case))
                                    if t in forced and (t == failing or m.depends(t, failing)) and had and gen != 0:
                                        res.violations.append(Violation('failing-recompute: a task downstream of the failed run has a new result', f'{label}: {t} gen {gen}', case))
                                    if t not in forced and not (had and gen == 0):
                                        res.violations.append(Violation('failing-recompute: result of an unforced task touched', f'{label}: {t} has_data={had} gen={gen}', case))
                                res.add('evaluations')
                                res.add('transitions', 2 * n + 2)
                            except Exception as e:  # noqa
                                res.violations.append(Violation('failing-recompute: scenario raised', f'{label}: {type(e).__name__}: {e}', case))
                            finally:
                                scratch.drop(base)
    finally:
        w.dispose()
        scratch.drop(root)
    return res


def _crash_leftover_job(kind):
    """store states left by a forced recomputation that DIED at any file-system operation: force(task, delete_data=True) in a new
    chain removes the stored result whatever is lying around; the next request recomputes"""
    import tcv
    from tcv import fsops
    from tcv.checks import c05

    tcv.quiet_library()
    res = Result()
    ops, snaps, final = c05._record(kind, True)
    for k in range(len(ops) + 1):
        sc = c05.Scenario(kind, True)
        case = {'kind': 'crash-leftover', 'data': kind}
        label = f'{kind}: forced recomputation dies before file operation {k}/{len(ops)} ({c05._short(ops[k][1]) if k < len(ops) else "none: completes"}), then a new chain forces t with delete_data=True'
        try:
            ch = sc.prepare()
            r = sc.target(ch, fsops.FS(sc.base, crash_at=k if k < len(ops) else None))
            if r != ('crash' if k < len(ops) else 'ok'):
                res.harness_errors.append(f'{label}: crash did not fire ({r})')
                continue
            histories.Exec._detach_handlers(None)
            w = sc.w
            ch2 = w.chain('v0', base_dir=sc.base)
            ch2.force('t', delete_data=True)
            ch3 = w.chain('v0', base_dir=sc.base)
            if ch3['t'].has_data:
                res.violations.append(Violation('crash-leftover: delete_data does not remove the stored result', f'{label}: a fresh chain still finds a result for t', case))
            if not ch3['u'].has_data:
                res.violations.append(Violation('crash-leftover: delete_data removed the result of an unforced task', label, case))
            mark = len(w.rt.log)
            p = w.decode(ch3['t'].value, kind)
            ran = [x[0] for x in w.rt.log[mark:]]
            if ran != ['t'] or p['term'] != sc.model.term('t'):
                res.violations.append(Violation('crash-leftover: request after delete_data does not recompute exactly the forced task', f'{label}: ran {ran}', case))
            res.add('evaluations')
            res.add('transitions', k + 3)
        except Exception as e:  # noqa
            res.violations.append(Violation('crash-leftover: scenario raised', f'{label}: {type(e).__name__}: {str(e)[:300]}', case))
        finally:
            sc.close()
    return res


def _fwd(n):
    return list(range(n))


def _rev(n):
    return list(range(n - 1, -1, -1))


def run(tier, seed):
    res = Result()
    nmax = 3 if tier == 'quick' else 4
    jobs = []
    for n in range(1, nmax + 1):
        for es in all_dags(n):
            jobs.append((n, tuple(sorted(es)), (_fwd, _rev) if n <= 3 else (_rev,)))
    k = seed % len(jobs)
    jobs = jobs[k:] + jobs[:k]
    for r in pmap(_part_a_dag, jobs):
        res.merge(r)
    res.coverage['part_a_dags'] = len(jobs)
    res.merge(_namemode_templates(None))
    fjobs = [(n, tuple(sorted(es))) for n in (range(1, 4) if tier == 'quick' else range(1, 5)) for es in all_dags(n)]
    for r in pmap(_failing_recompute_job, fjobs):
        res.merge(r)
    for r in pmap(_crash_leftover_job, ['dir', 'continues', 'json', 'list_of_numpy'] if tier == 'quick' else ['dir', 'continues', 'json', 'list_of_numpy', 'numpy', 'pandas', 'generator', 'generator_lazy']):
        res.merge(r)
    # forcing by name / task object / one-shot iterable in chains that hold shared task objects under other namespaces
    from tcv.checks import c13
    for sig, what in c13.namespace_scenarios():
        if sig.startswith('forc'):
            res.violations.append(Violation(f'shared tasks: {sig}', what, {'kind': 'shared-forcing'}))
    res.add('evaluations')
    # Part B: histories
    plan = []
    chain3 = dag_world(3, {(0, 1), (1, 2)})
    fork3 = dag_world(3, {(0, 1), (0, 2)})
    join3 = dag_world(3, {(0, 2), (1, 2)})
    diamond4 = dag_world(4, {(0, 1), (0, 2), (1, 3), (2, 3)})
    worlds_b = [chain3, fork3] if tier == 'quick' else [chain3, fork3, join3, diamond4]
    for desc in worlds_b:
        n = len(desc['tasks'])
        names = [f't{i}' for i in range(n)]
        fsets = [[t] for t in names] + ([[names[0], names[-1]]] if n > 2 else [])
        sp = specs.build(desc, variants=['v0'], ops=('new', 'value', 'cforce', 'tforce', 'restart', 'inspect'), slots=1, force_sets=fsets,
                         delete_flags=(False, True), cforce_flags=((False, False), (True, False), (False, True)))
        d0, d1 = (3, 4) if tier == 'quick' else (3, 5)
        plan.append((desc, sp, d0, d1))
    # "exactly once": after the forced recomputation the object may drop its value (reset_data) - the next request is served from storage
    two = dag_world(2, {(0, 1)})
    two['name'] = 'reset2'
    sp = specs.build(two, variants=['v0'], ops=('new', 'value', 'tforce', 'reset', 'inspect'), slots=1, delete_flags=(False,), force_tasks={'v0': ['t0']})
    plan.append((two, sp, 3, 6))
    # ... and a forced recomputation that FAILS has not happened: the next request still runs
    two_f = dag_world(2, {(0, 1)})
    two_f['name'] = 'forcefail2'
    sp = specs.build(two_f, variants=['v0'], ops=('new', 'value', 'tforce', 'fail'), slots=1, delete_flags=(False,), force_tasks={'v0': ['t0']}, faults=[('T0', 'raise')], max_faults=1)
    plan.append((two_f, sp, 3, 6))
    memchain = dag_world(3, {(0, 1), (1, 2)})
    memchain['name'] = 'memchain3'
    memchain['tasks']['T1']['data'] = 'inmemory'
    sp = specs.build(memchain, variants=['v0'], ops=('new', 'value', 'cforce', 'inspect'), slots=1, force_sets=[['t0'], ['t1']], cforce_flags=((False, False), (True, False), (False, True), (True, True)))
    plan.append((memchain, sp, 3, 4 if tier == 'quick' else 5))
    desc = twons_world()
    sp = specs.build(desc, variants=['v0'], ops=('new', 'value', 'cforce', 'inspect'), slots=1, tasks=['n1::r', 'n2::r', 'n2::cl'],
                     force_sets=[['n1::s'], ['n2::s'], ['n1::cl', 'n2::s']], cforce_flags=((False, False), (True, False), (False, True)))
    plan.append((desc, sp, 3, 4 if tier == 'quick' else 5))
    # name mode: results stored under config names that extend each other (exp / exp_big) in one directory
    desc = families.namemode()
    sp = specs.build(desc, ops=('new', 'value', 'cforce', 'inspect', 'restart'), slots=2, tasks=['a', 'c'], force_sets=[['a'], ['b']],
                     cforce_flags=((False, True), (True, False)), parameter_mode=False)
    plan.append((desc, sp, 3, 4 if tier == 'quick' else 5))
    for desc, sp, d0, d1 in plan:
        r = histories.explore(desc, sp, 'tcv.checks.c07:judge', d0, d1, seed=seed)
        cov = r.coverage
        res.coverage.setdefault('part_b', {})[desc['name']] = dict(states=cov['states'], transitions=cov['transitions'], executions=cov['executions'],
                                                                  stateless_depth=d0, merged_depth=cov['depth_completed'])
        res.add('states', cov['states'])
        res.add('transitions', cov['transitions'])
        res.add('evaluations', cov['executions'])
        res.add('distinct_nontrivial', cov['distinct_observation_vectors'])
        res.violations.extend(r.violations)
    res.coverage['traces_validated_against_impl'] = res.coverage['evaluations']
    res.coverage['exhaustive'] = True
    res.coverage['rule'] = (f'Part A: every labelled DAG on <= {nmax} tasks (fixed topological order) x every non-empty named set x (recompute, delete_data) x every '
                            'present/absent store state x request orders {forward, reverse}; each case: compute, delete subset, fresh chain, Chain.force, inspect, request all, '
                            'inspect, fresh chain loads. Part B: histories over {new, value, chain force, task force, inspect, restart}. distinct_nontrivial = distinct observation vectors')
    res.assumptions += ['run order inside Chain.force(recompute=True) is unspecified: compared as a multiset', 'tcv/histories.StoreModel predicts runs; refmodel gives closures by its own Warshall']
    return res


def replay(case):
    import tcv

    tcv.quiet_library()
    if case.get('kind') == 'failing-recompute':
        return _failing_recompute_job((case['n'], tuple(tuple(e) for e in case['edges']))).violations
    if case.get('kind') == 'crash-leftover':
        return _crash_leftover_job(case['data']).violations
    if case.get('kind') == 'shared-forcing':
        from tcv.checks import c13
        return [Violation(f'shared tasks: {sig}', what, case) for sig, what in c13.namespace_scenarios() if sig.startswith('forc')]
    desc = case['desc']
    vs, c, ov = histories.run_history(desc, case['hist'], judge(desc, None), parameter_mode=not desc['name'].startswith('namemode'))
    return vs
