"""C08 - the dependency graph is exactly the declared one, and acyclic.

X: bounded families of task-class sets with every form of input declaration on every potential edge, groups, namespace
mountings (nested, the same file twice, namespace text that prefixes a task name, root-level homonyms), exclusion /
abstract / wildcard discovery, all declaration orders, dangling and cyclic declarations; both modes. Oracle: tasks, edges
(on task objects), required/dependent/is_dependent closures == independent reference resolver + Warshall; error
configurations raise a deliberate exception and produce no chain.
"""
import itertools

from tcv import families, refmodel, scratch, worlds
from tcv.core import Result, Violation, digest
from tcv.pool import pmap

P, bc, bn = families.P, families.by_class, families.by_name

FORMS = ['none', 'class', 'name', 'gname', 'opt_class', 'opt_name']
GROUP_SCHEMES = [(None, None, None), ('g', None, 'g:h'), ('g:h', 'g:h', None), ('g', 'xg', None)]
ACCIDENTAL = (RecursionError, AttributeError, TypeError, IndexError, UnboundLocalError, NameError)


def _ref(form, target_key, tasks):
    t = tasks[target_key]
    name = t['name']
    g = t.get('group')
    if form == 'class':
        return bc(target_key)
    if form == 'name':
        return bn(name)
    if form == 'gname':
        return bn(f'{g}:{name}' if g else name)
    if form == 'opt_class':
        return {'how': 'opt_class', 'ref': target_key, 'default': 'dflt'}
    if form == 'opt_name':
        return {'how': 'opt_name', 'ref': name, 'default': None}
    raise ValueError(form)


def edges_family(n, tier):
    """n classes in a line of potential edges i -> j (i < j), every form on every edge, group schemes, mountings"""
    pairs = [(i, j) for j in range(n) for i in range(j)]
    out = []
    schemes = GROUP_SCHEMES if tier != 'quick' else GROUP_SCHEMES[:3]
    for forms in itertools.product(FORMS, repeat=len(pairs)):
        if tier == 'quick' and n == 3 and sum(1 for f in forms if f not in ('none', 'class')) > 2:
            continue
        if n == 4 and sum(1 for f in forms if f not in ('none', 'class')) > 2:
            continue
        for gs in schemes:
            tasks = {}
            for i in range(n):
                tasks[f'K{i}'] = {'name': f't{i}', 'group': gs[i % len(gs)], 'params': [], 'inputs': [], 'data': 'json'}
            skip = False
            for (i, j), f in zip(pairs, forms):
                if f == 'none':
                    continue
                if f == 'gname' and not tasks[f'K{i}'].get('group'):
                    skip = True  # identical to `name`
                    break
                tasks[f'K{j}']['inputs'].append(_ref(f, f'K{i}', tasks))
            if skip:
                continue
            for mount in ('root', 'as_n', 'nested'):
                out.append(_mounted(tasks, mount, f'edges{n}'))
    return out


def _mounted(tasks, mount, name, tasks_list=None, extra_cfg=None):
    keys = tasks_list or list(tasks)
    cfgs = {'pipe': {'medium': 'json', 'tasks': keys, 'values': {}}}
    root = 'pipe'
    if mount == 'as_n':
        cfgs['top'] = {'medium': 'json', 'tasks': [], 'values': {}, 'uses': [{'config': 'pipe', 'as': 'n'}]}
        root = 'top'
    elif mount == 'nested':
        cfgs['mid'] = {'medium': 'yaml', 'tasks': [], 'values': {}, 'uses': [{'config': 'pipe', 'as': 'n'}]}
        cfgs['top'] = {'medium': 'json', 'tasks': [], 'values': {}, 'uses': [{'config': 'mid', 'as': 'o'}]}
        root = 'top'
    if extra_cfg:
        cfgs.update(extra_cfg)
    return {'name': name, 'tasks': tasks, 'configs': cfgs, 'root': root, 'variants': {'v': []}}


def import_string_prefix_scenario():
    """a task declared by import string `module.Foo` is the class Foo - not a class whose name merely STARTS with `Foo` and stands earlier in the
    module; the same for excluded_tasks; a wildcard `module.Foo*` names all of them"""
    import importlib
    import sys
    from pathlib import Path
    from taskchain import Config

    out = []
    root = scratch.fresh('c08i')
    modname = f'tcv_prefix_{abs(hash(root)) % 10 ** 8}'
    try:
        Path(root, f'{modname}.py').write_text(
            'from taskchain import Task\n\n\n'
            'class FooBar(Task):\n    def run(self) -> int:\n        return 2\n\n\n'
            'class Foo(Task):\n    def run(self) -> int:\n        return 1\n\n\n'
            'class FooBarBaz(Task):\n    def run(self) -> int:\n        return 3\n')
        sys.path.insert(0, root)
        importlib.invalidate_caches()
        for decl, want in (({'tasks': [f'{modname}.Foo']}, ['foo']), ({'tasks': [f'{modname}.FooBar']}, ['foo_bar']), ({'tasks': [f'{modname}.Foo*']}, ['foo', 'foo_bar', 'foo_bar_baz']),
                           ({'tasks': [f'{modname}.*'], 'excluded_tasks': [f'{modname}.Foo']}, ['foo_bar', 'foo_bar_baz']), ({'tasks': [f'{modname}.*'], 'excluded_tasks': [f'{modname}.FooBar']}, ['foo', 'foo_bar_baz'])):
            try:
                got = sorted(Config(Path(root) / 'd', name='c', data=dict(decl)).chain().tasks)
            except Exception as e:  # noqa
                got = f'{type(e).__name__}: {e}'
            if got != want:
                out.append(('import-string: chain tasks differ from the declared ones', f'module defines FooBar, Foo, FooBarBaz (in this order); {decl} gives {got}, declared {want}'))
    finally:
        if root in sys.path:
            sys.path.remove(root)
        sys.modules.pop(modname, None)
        scratch.drop(root)
    return out


def same_name_classes_scenario():
    """ONE config declares two different task classes that have the same task name (`Thing` and `ThingTask` both are `thing`): the chain cannot
    hold both - the conflict is reported at construction, the later one does not silently replace the earlier (in either order)"""
    from pathlib import Path
    from taskchain import Config, Task

    class Thing(Task):
        def run(self) -> int:
            return 1

    class ThingTask(Task):
        def run(self) -> int:
            return 2

    class User(Task):
        class Meta:
            input_tasks = [Thing]

        def run(self, thing) -> int:
            return thing

    out = []
    root = scratch.fresh('c08n')
    try:
        for order in ([Thing, ThingTask, User], [ThingTask, Thing, User], [Thing, User, Thing]):
            try:
                ch = Config(Path(root) / 'd', name='c', data={'tasks': order}).chain()
                held = {n: type(t).__name__ for n, t in ch.tasks.items()}
                if len({c for c in order}) != len(held):
                    out.append(('same-name-classes: invalid declaration accepted (two classes, one task name)', f'tasks {[c.__name__ for c in order]}: chain holds {held}, user.value = {ch["user"].value}'))
            except ValueError:
                if len(set(order)) == 2:
                    out.append(('same-name-classes: valid declaration rejected', f'tasks {[c.__name__ for c in order]} (one class named twice)'))
    finally:
        scratch.drop(root)
    return out


def rebuilt_chain_scenario():
    """the chain of one config tree built twice (Config objects named in `uses`, the outer config under a namespace): the same declaration gives the
    same tasks and edges every time"""
    from pathlib import Path
    from taskchain import Config, Task

    class Z(Task):
        def run(self) -> int:
            return 1

    class U(Task):
        class Meta:
            input_tasks = ['l::z']

        def run(self) -> int:
            return self.input_tasks['l::z'].value

    out = []
    root = scratch.fresh('c08b')
    try:
        leaf = Config(Path(root) / 'd', name='leaf', namespace='l', data={'tasks': [Z]})
        mid = Config(Path(root) / 'd', name='mid', namespace='m', data={'tasks': [U], 'uses': [leaf]})
        top = Config(Path(root) / 'd', name='top', data={'uses': [mid]})
        seen = []
        for i in range(3):
            try:
                ch = top.chain()
                seen.append((sorted(ch.tasks), sorted((a.fullname, b.fullname) for a, b in ch.graph.edges)))
            except Exception as e:  # noqa
                seen.append(f'{type(e).__name__}: {e}')
        want = (['m::l::z', 'm::u'], [('m::l::z', 'm::u')])
        if any(x != want for x in seen):
            out.append(('rebuilt-chain: the chain of one config tree differs between builds', f'builds 1-3 of top -> mid as m -> leaf as l: {seen}, declared {want}'))
    finally:
        scratch.drop(root)
    return out


def inherited_meta_scenario():
    """task classes whose inner `Meta` SUBCLASSES the Meta of their (abstract) base: inputs, abstract flag and group declared there are inherited"""
    import tcv
    from pathlib import Path

    tcv.quiet_library()
    from taskchain import Config, Task

    class Src(Task):
        def run(self) -> int:
            return 1

    class Base(Task):
        class Meta:
            abstract = True
            input_tasks = [Src]
            task_group = 'cols'

        def run(self, src) -> int:
            return src

    class ColA(Base):
        class Meta(Base.Meta):
            abstract = False

    class Template(Base):
        class Meta(Base.Meta):
            pass    # still abstract: inherits `abstract = True`

    class ColB(Template):
        class Meta(Template.Meta):
            abstract = False
            name = 'col_b'

    out = []
    root = scratch.fresh('c08m')
    try:
        for tasks, want in (([Src, Base, ColA, Template, ColB], ['cols:col_a', 'cols:col_b', 'src']), ([ColB, ColA, Src, Template], ['cols:col_a', 'cols:col_b', 'src'])):
            ch = Config(Path(root) / 'data', name='m', data={'tasks': tasks}).chain()
            names = sorted(ch.tasks)
            if names != want:
                out.append(('inherited-meta: chain tasks differ from the declared ones', f'{[t.__name__ for t in tasks]}: {names}, expected {want}'))
                continue
            for n in ('cols:col_a', 'cols:col_b'):
                req = sorted(t.fullname for t in ch.required_tasks(n))
                dep = sorted(t.fullname for t in ch.dependent_tasks('src'))
                if req != ['src'] or dep != ['cols:col_a', 'cols:col_b'] or not ch.is_task_dependent_on(n, 'src'):
                    out.append(('inherited-meta: graph edges differ from the declared inputs', f'{n}: required {req}, dependants of src {dep}'))
        try:
            Config(Path(root) / 'data', name='m2', data={'tasks': [ColA]}).chain()
            out.append(('inherited-meta: invalid declaration accepted (missing-input)', 'ColA alone (its inherited input Src is not declared)'))
        except Exception:  # noqa
            pass
    except Exception as e:  # noqa
        out.append(('inherited-meta: valid declaration rejected', f'{type(e).__name__}: {e}'))
    finally:
        scratch.drop(root)
    return out


def special_family():
    out = []
    T = lambda name, group=None, inputs=(), **kw: dict({'name': name, 'group': group, 'params': [], 'inputs': list(inputs), 'data': 'json'}, **kw)  # noqa
    # patterns inside one namespace and across namespaces
    for mount in ('root', 'as_n', 'nested'):
        tasks = {'Fa': T('f_a'), 'Fb': T('f_b'), 'Other': T('other'), 'Cons': T('cons', inputs=[{'how': 'pattern', 'ref': '~f_.*'}])}
        out.append(_mounted(tasks, mount, 'pattern'))
        tasks = {'Fa': T('f_a'), 'Cons': T('cons', inputs=[{'how': 'pattern', 'ref': '~nomatch.*'}])}
        out.append(_mounted(tasks, mount, 'pattern-empty'))
        # patterns without a trailing wildcard match whole names only: `mean` is not `mean_abs`, and a consumer whose own name
        # merely starts like its pattern is not its own input
        tasks = {'Mean': T('mean'), 'MeanAbs': T('mean_abs'), 'XMean': T('xmean'), 'Cons': T('cons', inputs=[{'how': 'pattern', 'ref': '~mean'}])}
        out.append(_mounted(tasks, mount, 'pattern-whole'))
        tasks = {'Ra': T('raw_age'), 'Rs': T('raw_sex'), 'Buckets': T('raw_age_buckets', inputs=[{'how': 'pattern', 'ref': '~raw_(age|sex)'}])}
        out.append(_mounted(tasks, mount, 'pattern-whole-self'))
    # patterns and nested namespaces: a `~` pattern sees only tasks of EXACTLY its own namespace, not of an enclosing or enclosed one
    for where in ('outer', 'inner'):
        tasks = {'Fa': T('f_a'), 'Fb': T('f_b'), 'Cons': T('cons', inputs=[{'how': 'pattern', 'ref': '~f_.*'}])}
        out.append({'name': f'pattern-nested-{where}', 'tasks': tasks, 'configs': {
            'leaf': {'medium': 'json', 'tasks': ['Fb'] + (['Cons'] if where == 'inner' else []), 'values': {}},
            'mid': {'medium': 'json', 'tasks': ['Fa'] + (['Cons'] if where == 'outer' else []), 'values': {}, 'uses': [{'config': 'leaf', 'as': 'sub'}]},
            'top': {'medium': 'json', 'tasks': [], 'values': {}, 'uses': [{'config': 'mid', 'as': 'm1'}]}}, 'root': 'top', 'variants': {'v': []}})
    # `~~` from a root-level task across two mountings of the same file
    tasks = {'X': T('x_a'), 'Y': T('y'), 'All': T('all', inputs=[{'how': 'pattern', 'ref': '~~x_.*'}])}
    out.append({'name': 'pattern-anyns', 'tasks': tasks, 'configs': {
        'sub': {'medium': 'json', 'tasks': ['X', 'Y'], 'values': {}},
        'top': {'medium': 'json', 'tasks': ['All'], 'values': {}, 'uses': [{'config': 'sub', 'as': 'n1'}, {'config': 'sub', 'as': 'n2'}]}}, 'root': 'top', 'variants': {'v': []}})
    # `~~` from a task that itself lives in a namespace: collects matching tasks of every namespace (its own, a sibling, the root)
    tasks = {'X': T('x_a'), 'Xr': T('x_r'), 'Y': T('y'), 'All': T('all', inputs=[{'how': 'pattern', 'ref': '~~x_.*'}])}
    out.append({'name': 'pattern-anyns-from-ns', 'tasks': tasks, 'configs': {
        'sub': {'medium': 'json', 'tasks': ['X', 'Y'], 'values': {}},
        'coll': {'medium': 'json', 'tasks': ['All', 'X'], 'values': {}},
        'top': {'medium': 'json', 'tasks': ['Xr'], 'values': {}, 'uses': [{'config': 'sub', 'as': 'na'}, {'config': 'coll', 'as': 'nb'}]}}, 'root': 'top', 'variants': {'v': []}})
    # the same file mounted twice, consumer at root reads both
    for form in ('name', 'gname'):
        tasks = {'X': T('x', 'g' if form == 'gname' else None), 'Y': T('y', inputs=[bc('X')]), 'Z': T('z', inputs=[bn('n1::y'), bn('n2::g:x' if form == 'gname' else 'n2::x')])}
        out.append({'name': 'twice', 'tasks': tasks, 'configs': {
            'sub': {'medium': 'json', 'tasks': ['X', 'Y'], 'values': {}},
            'top': {'medium': 'yaml', 'tasks': ['Z'], 'values': {}, 'uses': [{'config': 'sub', 'as': 'n1'}, {'config': 'sub', 'as': 'n2'}]}}, 'root': 'top', 'variants': {'v': []}})
    # namespace whose text prefixes a task name; with and without a root-level homonym
    for homonym in (False, True):
        for form in ('class', 'name', 'opt_class'):
            tasks = {'Tx': T('tr_x'), 'M': T('model', inputs=[_ref(form, 'Tx', {'Tx': T('tr_x')})])}
            cfgs = {'inner': {'medium': 'json', 'tasks': ['Tx', 'M'], 'values': {}},
                    'top': {'medium': 'json', 'tasks': [], 'values': {}, 'uses': [{'config': 'inner', 'as': 'tr'}] + ([{'config': 'rootish'}] if homonym else [])}}
            if homonym:
                cfgs['rootish'] = {'medium': 'json', 'tasks': ['Tx'], 'values': {}}
            out.append({'name': f'prefix-ns{"-homonym" if homonym else ""}', 'tasks': tasks, 'configs': cfgs, 'root': 'top', 'variants': {'v': []}})
    # root-level homonym of a namespaced task: a reference inside the namespace binds inside the namespace
    for form in ('class', 'name'):
        tasks = {'X': T('x'), 'C': T('c', inputs=[_ref(form, 'X', {'X': T('x')})])}
        out.append({'name': 'homonym', 'tasks': tasks, 'configs': {
            'inner': {'medium': 'json', 'tasks': ['X', 'C'], 'values': {}},
            'rootish': {'medium': 'json', 'tasks': ['X'], 'values': {}},
            'top': {'medium': 'json', 'tasks': [], 'values': {}, 'uses': [{'config': 'rootish'}, {'config': 'inner', 'as': 'n'}]}}, 'root': 'top', 'variants': {'v': []}})
        # ... and a reference from the root level never reaches into a namespace
        tasks = {'X': T('x'), 'C': T('c', inputs=[_ref(form, 'X', {'X': T('x')})])}
        out.append({'name': 'dangling-into-ns', 'tasks': tasks, 'configs': {
            'inner': {'medium': 'json', 'tasks': ['X'], 'values': {}},
            'top': {'medium': 'json', 'tasks': ['C'], 'values': {}, 'uses': [{'config': 'inner', 'as': 'n'}]}}, 'root': 'top', 'variants': {'v': []}})
    # an OPTIONAL by-name input of a root-level task that exists only inside a namespace: absent (default), never bound into the namespace
    tasks = {'Cal': T('calibration'), 'R': T('report', inputs=[{'how': 'opt_name', 'ref': 'calibration', 'default': 0}])}
    out.append({'name': 'optional-dangling-into-ns', 'tasks': tasks, 'configs': {
        'inner': {'medium': 'json', 'tasks': ['Cal'], 'values': {}},
        'top': {'medium': 'json', 'tasks': ['R'], 'values': {}, 'uses': [{'config': 'inner', 'as': 'aux'}]}}, 'root': 'top', 'variants': {'v': []}})
    # nested namespaces with fully qualified references written relative to the declaring namespace
    tasks = {'S': T('source', 'raw'), 'U': T('user', inputs=[bn('etl::raw:source')]), 'V': T('v', inputs=[bn('etl::source')])}
    out.append({'name': 'nested-qualified', 'tasks': tasks, 'configs': {
        'leaf': {'medium': 'json', 'tasks': ['S'], 'values': {}},
        'mid': {'medium': 'json', 'tasks': ['U', 'V'], 'values': {}, 'uses': [{'config': 'leaf', 'as': 'etl'}]},
        'top': {'medium': 'json', 'tasks': [], 'values': {}, 'uses': [{'config': 'mid', 'as': 'prod'}]}}, 'root': 'top', 'variants': {'v': []}})
    # discovery: exclusion, abstract classes, wildcard, every declaration order; exclusion in one mounting only
    base = {'A': T('a'), 'B': T('b', inputs=[bc('A')]), 'Abs': T('abs', abstract=True), 'C': T('c', inputs=[bc('B')])}
    for order in itertools.permutations(['A', 'B', 'C']):
        out.append(_mounted(base, 'root', 'order', tasks_list=list(order) + ['Abs']))
    d = _mounted(base, 'root', 'wildcard', tasks_list=['<mod>.*'])
    out.append(d)
    # the same declared as class OBJECTS in a config built from a dict (an abstract class named there is still not a task)
    d = _mounted(base, 'root', 'order-objects', tasks_list=['A', 'Abs', 'B', 'C'])
    for c in d['configs'].values():
        if c.get('tasks'):
            c.update(medium='inline', tasks_as_classes=True)
    out.append(d)
    d = _mounted(base, 'as_n', 'excluded', tasks_list=['<mod>.*'])
    d['configs']['pipe']['excluded'] = ['C']
    out.append(d)
    d = _mounted(base, 'root', 'excluded-needed', tasks_list=['<mod>.*'])
    d['configs']['pipe']['excluded'] = ['B']  # C needs B: dangling
    out.append(d)
    for first in ('lite', 'full'):
        cfg = {'lite': {'medium': 'json', 'file': 'lite.json', 'tasks': ['A', 'B', 'C'], 'excluded': ['C'], 'values': {}},
               'full': {'medium': 'json', 'file': 'full.json', 'tasks': ['A', 'B', 'C'], 'values': {}},
               'top': {'medium': 'json', 'tasks': [], 'values': {}, 'uses': [{'config': first, 'as': first}, {'config': 'full' if first == 'lite' else 'lite', 'as': 'full' if first == 'lite' else 'lite'}]}}
        out.append({'name': 'excluded-elsewhere', 'tasks': base, 'configs': cfg, 'root': 'top', 'variants': {'v': []}})
    # dangling and cyclic declarations
    cyc = []
    cyc.append({'A': T('a', inputs=[bn('a')])})
    cyc.append({'A': T('a', inputs=[bn('b')]), 'B': T('b', inputs=[bc('A')])})
    cyc.append({'A': T('a', inputs=[bn('c')]), 'B': T('b', inputs=[bc('A')]), 'C': T('c', inputs=[bc('B')])})
    cyc.append({'A': T('a', inputs=[{'how': 'pattern', 'ref': '~a'}])})
    cyc.append({'A': T('a'), 'B': T('b', inputs=[bc('A'), {'how': 'opt_name', 'ref': 'c', 'default': None}]), 'C': T('c', inputs=[bc('B')])})
    cyc.append({'A': T('a', inputs=[bn('missing')])})
    cyc.append({'A': T('a', inputs=[{'how': 'opt_name', 'ref': 'missing', 'default': 5}])})
    cyc.append({'A': T('a'), 'B': T('b', inputs=[bn('n::a')])})
    for order in (['O', 'D'], ['D', 'O']):
        tasks = {'O': T('o', inputs=[{'how': 'opt_name', 'ref': 'nope', 'default': None}]), 'D': T('d', inputs=[bn('ghost')])}
        out.append(_mounted(tasks, 'root', 'dangling-after-optional', tasks_list=order))
        out.append(_mounted(tasks, 'as_n', 'dangling-after-optional', tasks_list=order))
    for tasks in cyc:
        for mount in ('root', 'as_n'):
            if mount == 'as_n' and any(i['ref'].startswith('n::') for t in tasks.values() for i in t['inputs'] if isinstance(i['ref'], str)):
                continue  # a reference that already starts with the own namespace is read as absolute by the code (undocumented): not generated
            out.append(_mounted(tasks, mount, 'cyclic-or-dangling'))
    # a class referenced by class but not declared by any config
    tasks = {'A': T('a'), 'B': T('b', inputs=[bc('A')])}
    out.append(_mounted(tasks, 'root', 'undeclared-class', tasks_list=['B']))
    # ... also when another task with the same short name (in a group) IS declared: a class reference means that class
    tasks = {'Feat': T('features'), 'FeatV2': T('features', 'v2'), 'Model': T('model', inputs=[bc('Feat')])}
    for mount in ('root', 'as_n'):
        out.append(_mounted(tasks, mount, 'undeclared-class-homonym', tasks_list=['FeatV2', 'Model']))
        out.append(_mounted(tasks, mount, 'class-homonym-both', tasks_list=['FeatV2', 'Feat', 'Model']))
    # a config mounted `as e1` / `as e2` that itself PLAINLY uses further files: those belong to e1 / e2 as well
    tasks = {'D': T('d'), 'M': T('m', inputs=[bc('D')]), 'Top': T('top', inputs=[bn('e1::m'), bn('e2::d')])}
    for leaf_medium in ('json', 'yaml'):
        out.append({'name': 'plain-uses-inside-namespace', 'tasks': tasks, 'configs': {
            'leafd': {'medium': leaf_medium, 'tasks': ['D'], 'values': {}},
            'leafm': {'medium': 'json', 'tasks': ['M'], 'values': {}},
            'bundle': {'medium': 'json', 'tasks': [], 'values': {}, 'uses': [{'config': 'leafd'}, {'config': 'leafm'}]},
            'top': {'medium': 'json', 'tasks': ['Top'], 'values': {}, 'uses': [{'config': 'bundle', 'as': 'e1'}, {'config': 'bundle', 'as': 'e2'}]}}, 'root': 'top', 'variants': {'v': []}})
    tasks = {'A': T('a'), 'B': T('b', inputs=[{'how': 'opt_class', 'ref': 'A', 'default': 1}])}
    out.append(_mounted(tasks, 'as_n', 'undeclared-optional', tasks_list=['B']))
    # an OPTIONAL input named by class, its class not declared, a grouped task of the same plain name declared: the default is taken
    tasks = {'Feat': T('features'), 'FeatV2': T('features', 'v2'), 'Model': T('model', inputs=[{'how': 'opt_class', 'ref': 'Feat', 'default': 1}])}
    for mount in ('root', 'as_n'):
        out.append(_mounted(tasks, mount, 'optional-class-homonym', tasks_list=['FeatV2', 'Model']))
    return out


def check_world(desc, parameter_mode):
    """-> list of (kind, msg)"""
    out = []
    root = scratch.fresh('c08')
    w = worlds.World(desc, root)
    try:
        m = refmodel.Model(worlds.apply_variant(desc, 'v'), w.modname)
        if m.error is not None and m.error.kind in ('duplicate-input', 'ambiguous-input'):
            return None
        try:
            ch = w.chain('v', base_dir=root + '/data', parameter_mode=parameter_mode)
            err = None
        except Exception as e:  # noqa
            ch, err = None, e
        if m.error is not None:
            if err is None:
                return [(f'invalid declaration accepted ({m.error.kind})', f'model expects {m.error}; chain built with tasks {sorted(ch.tasks)}')]
            if isinstance(err, ACCIDENTAL):
                return [(f'invalid declaration ends in {type(err).__name__} instead of a deliberate error ({m.error.kind})', f'{m.error}: {type(err).__name__}: {str(err)[:150]}')]
            return []
        if err is not None:
            return [('valid declaration rejected', f'{type(err).__name__}: {str(err)[:300]}')]
        if set(ch.tasks) != set(m.tasks):
            return [('chain tasks differ from the declared ones', f'chain {sorted(ch.tasks)}, declared {sorted(m.tasks)}')]
        obj = {fn: ch.tasks[fn] for fn in m.tasks}
        exp_edges = {(id(obj[t]), id(obj[fn])) for fn in m.tasks for t in m.succ(fn)}
        got_edges = {(id(a), id(b)) for a, b in ch.graph.edges}
        if exp_edges != got_edges:
            names = {id(o): fn for fn, o in obj.items()}
            show = lambda es: sorted((names.get(a, '?'), names.get(b, '?')) for a, b in es)  # noqa
            return [('graph edges differ from the declared inputs', f'unexpected {show(got_edges - exp_edges)}, missing {show(exp_edges - got_edges)}')]
        if {id(n) for n in ch.graph.nodes} != {id(o) for o in obj.values()}:
            return [('graph nodes differ from the tasks', '')]
        for fn in m.tasks:
            got = {id(t) for t in ch.tasks[fn].input_tasks.values() if isinstance(t, type(obj[fn]).__mro__[-2])}
            exp = {id(obj[t]) for t in m.succ(fn)}
            if got != exp:
                return [('input registry of a task differs from its declared inputs', f'{fn}: {sorted(ch.tasks[fn].input_tasks.keys())} vs {sorted(m.succ(fn))}')]
            # optional inputs that are absent carry their default
            for label, tgt in m.tasks[fn].edges.items():
                if not isinstance(tgt, str):
                    vals = [v for k, v in ch.tasks[fn].input_tasks.items() if not hasattr(v, 'fullname')]
                    if tgt[1] not in vals:
                        return [('absent optional input does not carry its default', f'{fn}: {label} -> {vals}, default {tgt[1]!r}')]
        # closures on task OBJECTS: names that legitimately denote one shared object (identical computations) are one node
        node = {fn: id(obj[fn]) for fn in m.tasks}
        for a in m.tasks:
            for b in m.tasks:
                if a < b and node[a] == node[b]:
                    same = (m.tasks[a].local == m.tasks[b].local and m.key(a) == m.key(b)) if parameter_mode else (m.tasks[a].key == m.tasks[b].key and m.tasks[a].mount[1] == m.tasks[b].mount[1])
                    if not same:
                        return [('different computations share one task object', f'{a} and {b}')]
        succ = {}
        for fn in m.tasks:
            succ.setdefault(node[fn], set()).update(node[t] for t in m.succ(fn))
        reach = {n: set(s) for n, s in succ.items()}
        for k in reach:
            for a in reach:
                if k in reach[a]:
                    reach[a] |= reach[k]
        for a in m.tasks:
            req = {id(t) for t in ch.required_tasks(a)}
            dep = {id(t) for t in ch.dependent_tasks(a)}
            if req != reach[node[a]] - {node[a]}:
                return [('required_tasks is not the transitive closure of the declared inputs', f'{a}: {sorted(t.fullname for t in ch.required_tasks(a))}')]
            exp_dep = {n for n in reach if node[a] in reach[n]} - {node[a]}
            if dep != exp_dep:
                return [('dependent_tasks is not the transitive closure', f'{a}: {sorted(t.fullname for t in ch.dependent_tasks(a))}')]
            if {id(t) for t in ch.required_tasks(a, include_self=True)} != req | {node[a]} or {id(t) for t in ch.dependent_tasks(a, include_self=True)} != dep | {node[a]}:
                return [('include_self not honoured', a)]
            for b in m.tasks:
                exp_b = node[b] in reach[node[a]] and node[a] != node[b]   # the transitive closure of an acyclic relation is irreflexive, like required_tasks / dependent_tasks
                if bool(ch.is_task_dependent_on(a, b)) != exp_b:
                    return [('is_task_dependent_on disagrees with the closure', f'{a} on {b}: {ch.is_task_dependent_on(a, b)} vs {exp_b}')]
        return out
    finally:
        w.dispose()
        scratch.drop(root)


def check_multichain_name_mode():
    """name mode with a shared task registry (MultiChain): every member chain's graph has exactly its own declared edges,
    whatever was wired for the shared task objects by the chains built before it (both build orders)"""
    from taskchain import MultiChain

    out = []
    T = lambda name, inputs=(): {'name': name, 'group': None, 'params': [], 'inputs': list(inputs), 'data': 'json'}  # noqa
    tasks = {'Voc': T('vocabulary'), 'Feat': T('features', [{'how': 'opt_name', 'ref': 'vocabulary', 'default': None}]), 'Ma': T('metric_a'), 'Mb': T('metric_b'),
             'Rep': T('report', [{'how': 'pattern', 'ref': '~metric_.*'}, bc('Feat')])}
    desc = {'name': 'multichain-name-mode', 'tasks': tasks, 'configs': {
        'core': {'medium': 'json', 'tasks': ['Feat', 'Rep', 'Ma'], 'values': {}},
        'small': {'medium': 'json', 'tasks': [], 'values': {}, 'uses': [{'config': 'core'}]},
        'full': {'medium': 'json', 'tasks': ['Voc', 'Mb'], 'values': {}, 'uses': [{'config': 'core'}]}}, 'root': 'small', 'variants': {'v': []}}
    for order in (['small', 'full'], ['full', 'small']):
        root = scratch.fresh('c08m')
        w = worlds.World(desc, root)
        try:
            cfgs = [w.make_config('v', base_dir=root + '/data', root=r) for r in order]
            mc = MultiChain(cfgs, parameter_mode=False)
            for r in order:
                ch = mc[r]
                d = dict(desc, root=r)
                m = refmodel.Model(worlds.apply_variant(d, 'v'), w.modname)
                if set(ch.tasks) != set(m.tasks):
                    out.append(('member chain tasks differ from the declared ones', f'build order {order}, member {r}: {sorted(ch.tasks)} vs {sorted(m.tasks)}'))
                    continue
                obj = {fn: ch.tasks[fn] for fn in m.tasks}
                exp_edges = {(id(obj[t]), id(obj[fn])) for fn in m.tasks for t in m.succ(fn)}
                got_edges = {(id(a), id(b)) for a, b in ch.graph.edges}
                names = {id(o): fn for fn, o in obj.items()}
                if exp_edges != got_edges:
                    show = lambda es: sorted((names.get(a, '<task of another chain>'), names.get(b, '<task of another chain>')) for a, b in es)  # noqa
                    out.append(('graph of a member chain differs from its declared inputs', f'build order {order}, member {r}: unexpected {show(got_edges - exp_edges)}, missing {show(exp_edges - got_edges)}'))
                if {id(n) for n in ch.graph.nodes} != set(names):
                    out.append(('graph of a member chain holds tasks of another chain', f'build order {order}, member {r}'))
        except Exception as e:  # noqa
            out.append(('name-mode MultiChain cannot be built', f'{order}: {type(e).__name__}: {e}'))
        finally:
            w.dispose()
            scratch.drop(root)
    return out


def _job(descs):
    import tcv

    tcv.quiet_library()
    res = Result()
    for desc in descs:
        for pm in (True, False):
            res.add('evaluations')
            res.add('transitions')
            bad = check_world(desc, pm)
            if bad is None:
                res.add('skipped_unspecified')
                continue
            if any(t.get('inputs') for t in desc['tasks'].values()):
                res.add('distinct_nontrivial')
            for kind, msg in bad:
                res.violations.append(Violation(f'{desc["name"]}: {kind}', f'{"parameter" if pm else "name"} mode, tasks {_show(desc)}: {msg}', {'desc': desc, 'pm': pm}))
    return res


def _show(desc):
    return {k: {'name': t['name'], 'group': t.get('group'), 'inputs': [(i['how'], i['ref']) for i in t['inputs']]} for k, t in desc['tasks'].items()} | {'configs': {c: {'tasks': v.get('tasks'), 'uses': v.get('uses')} for c, v in desc['configs'].items()}}


def run(tier, seed):
    fam = special_family()
    fam += edges_family(2, tier) + edges_family(3, tier)
    if tier != 'quick':
        fam += edges_family(4, tier)
    k = seed % len(fam)
    fam = fam[k:] + fam[:k]
    n = 64
    res = Result()
    for r in pmap(_job, [fam[i::n] for i in range(n)]):
        res.merge(r)
    import tcv
    tcv.quiet_library()
    res.add('evaluations', 2)
    for kind, msg in check_multichain_name_mode():
        res.violations.append(Violation(f'multichain-name-mode: {kind}', msg, {'multichain': True}))
    res.add('evaluations', 3)
    for kind, msg in inherited_meta_scenario():
        res.violations.append(Violation(kind, msg, {'inherited_meta': True}))
    for kind, msg in rebuilt_chain_scenario():
        res.violations.append(Violation(kind, msg, {'rebuilt_chain': True}))
    for kind, msg in import_string_prefix_scenario():
        res.violations.append(Violation(kind, msg, {'import_prefix': True}))
    for kind, msg in same_name_classes_scenario():
        res.violations.append(Violation(kind, msg, {'same_name_classes': True}))
    res.coverage['configurations'] = len(fam)
    res.coverage['states'] = len(fam) * 2
    res.coverage['traces_validated_against_impl'] = res.coverage['evaluations']
    res.coverage['exhaustive'] = True
    res.coverage['rule'] = ('edges families: 2-3 (thorough: 4, at most two non-class forms) classes x every form {none, class, name, group:name, optional by class/name} on every potential edge x '
                            'group schemes x {root, as n, nested o::n}; special family: patterns (~ and ~~), same file mounted twice, namespace text prefixing a task name, root-level homonyms, '
                            'nested qualified references, exclusion/abstract/wildcard/all declaration orders, self-loop/2-cycle/3-cycle/pattern self-match/dangling; both parameter and name mode; '
                            'distinct_nontrivial = configurations with at least one declared input')
    res.sample(_show(fam[0]))
    res.assumptions += ['configurations the model calls duplicate-input or ambiguous-input are outside the statement and skipped (counted)', 'patterns are aimed at group-less targets only; '
                        'references are written relative to the declaring namespace']
    return res


def replay(case):
    import tcv

    tcv.quiet_library()
    if case.get('same_name_classes'):
        return [Violation(k, m, case) for k, m in same_name_classes_scenario()]
    if case.get('import_prefix'):
        return [Violation(k, m, case) for k, m in import_string_prefix_scenario()]
    if case.get('rebuilt_chain'):
        return [Violation(k, m, case) for k, m in rebuilt_chain_scenario()]
    if case.get('inherited_meta'):
        return [Violation(k, m, case) for k, m in inherited_meta_scenario()]
    if case.get('multichain'):
        return [Violation(f'multichain-name-mode: {k}', m, case) for k, m in check_multichain_name_mode()]
    bad = check_world(case['desc'], case['pm']) or []
    return [Violation(f'{case["desc"]["name"]}: {k}', m, case) for k, m in bad]
