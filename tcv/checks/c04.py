"""C04 - each computation runs at most once, and only on demand.

All histories without force/failure/deletion over config variants sharing one data directory; after EVERY step the
invocation-log delta written by the generated run() methods is compared with the reference model's prediction (which
tasks must run, in pull order), inspection/construction must run nothing, and at the end no storage key ran twice.
"""
from collections import Counter

from tcv import families, histories, scratch, specs
from tcv.core import Result, Violation


def lazy_world():
    """a task whose run requests only the inputs a parameter selects"""
    P, bc = families.P, families.by_class
    return {
        'name': 'lazy',
        'tasks': {
            'A': {'params': [P('pa', default=0)], 'inputs': [], 'data': 'json'},
            'B': {'params': [P('pb', default=0)], 'inputs': [], 'data': 'numpy'},
            'L': {'params': [P('sel')], 'inputs': [bc('A'), bc('B')], 'data': 'json', 'run': 'lazy'},
            'M': {'params': [], 'inputs': [bc('L')], 'data': 'json'},
        },
        'configs': {'root': {'medium': 'json', 'tasks': ['A', 'B', 'L', 'M'], 'values': {'sel': ['A']}}},
        'root': 'root',
        'variants': {'v0': [], 'v1': [[['configs', 'root', 'values', 'sel'], ['B']]], 'v2': [[['configs', 'root', 'values', 'sel'], []]],
                     'v3': [[['configs', 'root', 'values', 'sel'], ['A', 'B']]]},
    }


def mem_world():
    """an in-memory task in the middle: runs once per task object"""
    P, bc = families.P, families.by_class
    return {
        'name': 'mem',
        'tasks': {
            'A': {'params': [P('pa', default=0)], 'inputs': [], 'data': 'json'},
            'B': {'params': [], 'inputs': [bc('A')], 'data': 'inmemory'},
            'C': {'params': [], 'inputs': [bc('B')], 'data': 'json'},
            'E': {'params': [], 'inputs': [bc('A')], 'data': 'inmemory_empty'},
            'F': {'params': [], 'inputs': [bc('E'), bc('B')], 'data': 'inmemory'},
        },
        'configs': {'root': {'medium': 'json', 'tasks': ['A', 'B', 'C', 'E', 'F'], 'values': {}}},
        'root': 'root',
        'variants': {'v0': [], 'v1': [[['configs', 'root', 'values', 'pa'], 1]]},
    }


def shared_world():
    """two unrelated configs (different files, names, directories, one mounted under a namespace) containing one identical computation"""
    P, bc = families.P, families.by_class
    return {
        'name': 'shared',
        'tasks': {
            'A': {'params': [P('pa')], 'inputs': [], 'data': 'json'},
            'B': {'params': [P('pb', default=0)], 'inputs': [bc('A')], 'data': 'json'},
            'Q': {'params': [], 'inputs': [families.by_name('ns::b')], 'data': 'json'},
        },
        'configs': {
            'one': {'medium': 'json', 'tasks': ['A', 'B'], 'values': {'pa': 1}},
            'two': {'medium': 'yaml', 'dir': 'elsewhere', 'tasks': ['Q'], 'values': {}, 'uses': [{'config': 'inner', 'as': 'ns'}]},
            'inner': {'medium': 'yaml', 'dir': 'elsewhere', 'tasks': ['A', 'B'], 'values': {'pa': 1}},
        },
        'root': 'one',
        'variants': {'v0': [], 'v1': [[['root'], 'two']], 'v2': [[['root'], 'two'], [['configs', 'inner', 'values', 'pb'], 1]]},
    }


def empties_world():
    """tasks whose legitimate, complete result is EMPTY (zero generated items, zero arrays, an empty directory)"""
    P, bc = families.P, families.by_class
    return {
        'name': 'empties',
        'tasks': {
            'G': {'params': [P('pg', default=0)], 'inputs': [], 'data': 'generator0'},
            'L': {'params': [], 'inputs': [bc('G')], 'data': 'lon0'},
            'D': {'params': [], 'inputs': [bc('L')], 'data': 'dir0'},
            'E': {'params': [], 'inputs': [bc('D')], 'data': 'json'},
        },
        'configs': {'root': {'medium': 'json', 'tasks': ['G', 'L', 'D', 'E'], 'values': {}}},
        'root': 'root',
        'variants': {'v0': [], 'v1': [[['configs', 'root', 'values', 'pg'], 1]]},
    }


def owndata_world():
    """a task that returns a data object of its own class (constructor with an optional argument), between two ordinary ones"""
    P, bc = families.P, families.by_class
    return {
        'name': 'owndata',
        'tasks': {
            'A': {'params': [P('pa', default=0)], 'inputs': [], 'data': 'json'},
            'T': {'params': [], 'inputs': [bc('A')], 'data': 'json_titled'},
            'C': {'params': [], 'inputs': [bc('T')], 'data': 'json'},
        },
        'configs': {'root': {'medium': 'json', 'tasks': ['A', 'T', 'C'], 'values': {}}},
        'root': 'root',
        'variants': {'v0': [], 'v1': [[['configs', 'root', 'values', 'pa'], 1]]},
    }


EXTRA = {'owndata': owndata_world, 'lazy': lazy_world, 'mem': mem_world, 'shared': shared_world, 'empties': empties_world}


# name mode: the second config's name merely extends the first one's (exp_big) or is a name the library gives to its own
# temporaries; last task a directory / a file / a list of arrays
NAMEMODE_OTHERS = (('exp_big', 'dir'), ('exp_tmp', 'json'), ('exp_tmp', 'list_of_numpy'), ('exp_tmp', 'dir'), ('exp_old', 'dir'), ('exp_old', 'list_of_numpy'), ('exp_error', 'dir'))


def namemode_desc(other, ck):
    d = families.namemode(other, ck)
    d['name'] = 'namemode' if (other, ck) == ('exp_big', 'dir') else f'namemode-{other}-{ck}'
    return d


def get_desc(name):
    if name.startswith('namemode-'):
        _, other, ck = name.split('-', 2)
        return namemode_desc(other, ck)
    return (EXTRA.get(name) or families.ALL[name])()


def judge(desc, spec):
    def j(i, obs, exp, ex):
        op = obs['op']
        out = []
        hist = [o['op'] for o, _ in ex.steps]
        case = {'world': desc['name'], 'hist': hist}
        if op[0] == 'value':
            if obs['error'] is not None:
                out.append(Violation(f'{desc["name"]}: value request failed', f'history {hist}: {obs["error"]}\n{obs.get("tb", "")}', case))
            elif sorted(map(repr, obs['run_objs'])) != sorted(map(repr, exp['run_objs'])):
                # the property speaks about WHICH computations run (a multiset), not their order: a task whose run()
                # takes its inputs as arguments has them evaluated before its own run starts, a task that pulls them
                # from the registry after
                extra = [r for r in obs['run_objs'] if r not in exp['run_objs']]
                missing = [r for r in exp['run_objs'] if r not in obs['run_objs']]
                kind = 'runs-more' if extra else ('runs-fewer' if missing else 'runs-repeated')
                out.append(Violation(
                    f'{desc["name"]}: {kind} on value request',
                    f'history {hist}: requesting `{op[2]}` executed run of {obs["runs"]}, the model (memory, store, lazy pull order) predicts {exp["runs"]}', case))
        elif op[0] in ('new', 'inspect', 'restart'):
            if obs['runs']:
                out.append(Violation(f'{desc["name"]}: {op[0]} executed run()', f'history {hist}: {op} ran {obs["runs"]}', case))
            if op[0] == 'new' and obs.get('error'):
                out.append(Violation(f'{desc["name"]}: construction failed', f'history {hist}: {obs["error"]}', case))
            if op[0] == 'inspect' and obs.get('error'):
                out.append(Violation(f'{desc["name"]}: inspection raised', f'history {hist}: {obs["error"]}', case))
            elif op[0] == 'inspect' and obs['has_data'] != exp['has_data']:
                diff = {k: (obs['has_data'][k], exp['has_data'][k]) for k in obs['has_data'] if obs['has_data'][k] != exp['has_data'][k]}
                out.append(Violation(f'{desc["name"]}: has_data disagrees with the store', f'history {hist}: (impl, model) {diff}', case))
        # global: a persisted storage location never runs twice
        if i == len(hist) - 1 or True:
            c = Counter((r[2], r[1]) for r in ex.world.rt.log if r[1] is not None and desc['tasks'][r[2]].get('data', 'json') not in ('inmemory', 'inmemory_empty'))
            twice = {k: n for k, n in c.items() if n > 1}
            if twice and op[0] == 'value' and not out:
                out.append(Violation(f'{desc["name"]}: storage location computed twice', f'history {hist}: {twice}', case))
        return out
    return j


def _namemode_templates():
    """name mode, config names extending each other (exp / exp_big), one directory: constructing / inspecting / computing one
    config never costs the other one a re-run"""
    res = Result()
    pairs = []
    for other, ck in NAMEMODE_OTHERS:
        pairs += [(other, ck, other, 'exp'), (other, ck, 'exp', other)]
    for other, ck, first, second in pairs:
        desc = namemode_desc(other, ck)
        jf = judge(desc, None)
        for mid in ([['inspect', 1]], [['value', 1, 'c']], [['inspect', 1], ['value', 1, 'a'], ['inspect', 1]]):
            h = [['new', 0, first], ['value', 0, 'c'], ['new', 1, second]] + mid + [['restart'], ['new', 0, first], ['inspect', 0], ['value', 0, 'c'], ['value', 0, 'a'], ['new', 1, second], ['inspect', 1], ['value', 1, 'c']]
            vs, c, ov = histories.run_history(desc, h, jf, parameter_mode=False)
            res.add('evaluations')
            res.add('transitions', len(h))
            res.violations.extend(vs[:2])
    return res


def _unreadable_result_scenario():
    """a stored result the library itself cannot read back (an object-dtype array: saved pickled, loaded with allow_pickle=False).
    Whatever a later request does with it (the pinned code raises), it does not silently run the task again at the same location"""
    import numpy as np
    from pathlib import Path
    from taskchain import Config, Task

    runs = []

    class Ragged(Task):
        def run(self) -> np.ndarray:
            runs.append(1)
            a = np.empty(2, dtype=object)
            a[0], a[1] = [1, 2, 3], [4]
            return a

    class Uses(Task):
        class Meta:
            input_tasks = [Ragged]

        def run(self, ragged) -> int:
            return len(ragged)

    out = []
    root = scratch.fresh('c04u')
    try:
        outcomes = []
        for i in range(3):
            ch = Config(Path(root) / 'data', name='c', data={'tasks': [Ragged, Uses]}).chain()
            for name in (('ragged',) if i < 2 else ('uses',)):
                try:
                    ch[name].value
                    outcomes.append('value')
                except Exception as e:  # noqa
                    outcomes.append(type(e).__name__)
        if len(runs) != 1:
            out.append(Violation('unreadable: storage location computed more than once', f'object-dtype array result: run executed {len(runs)} times over three chains (requests ended in {outcomes})', {'kind': 'unreadable'}))
    finally:
        scratch.drop(root)
    return out


def _needs_arg_scenario():
    """a task whose data class can be created ONLY inside run (its constructor requires an argument): the library cannot inspect such a
    result from outside (the pinned code raises TypeError) - whatever an inspection call answers, it never runs anything"""
    from pathlib import Path
    from taskchain import Config, Task
    from taskchain.data import JSONData

    runs = []

    class Table(JSONData):
        DATA_TYPES = []

        def __init__(self, title):
            super().__init__()
            self.title = title

    class Numbers(Task):
        def run(self) -> list:
            runs.append('numbers')
            return [1, 2]

    class Tab(Task):
        class Meta:
            input_tasks = [Numbers]

        def run(self, numbers) -> Table:
            runs.append('tab')
            t = Table('t')
            t.set_value({'n': numbers})
            return t

    class Summary(Task):
        class Meta:
            input_tasks = [Tab]

        def run(self, tab) -> dict:
            runs.append('summary')
            return {'s': tab}

    out = []
    root = scratch.fresh('c04n')
    try:
        for computed_before in (False, True):
            del runs[:]
            if computed_before:
                Config(Path(root) / 'data', name='c', data={'tasks': [Numbers, Tab, Summary]}).chain()['summary'].value
                del runs[:]
            ch = Config(Path(root) / 'data', name='c', data={'tasks': [Numbers, Tab, Summary]}).chain()
            answers = {}
            for name, t in ch.tasks.items():
                for what in ('has_data', 'data_path', 'run_info', 'log', 'is_forced'):
                    try:
                        answers[(name, what)] = 'ok' if getattr(t, what) is not None or True else None
                    except Exception as e:  # noqa
                        answers[(name, what)] = type(e).__name__
            for what in ('tasks_df', 'create_readable_filenames'):
                try:
                    v = getattr(ch, what)
                    if callable(v):
                        v()
                except Exception as e:  # noqa
                    answers[('chain', what)] = type(e).__name__
            if runs:
                out.append(Violation('needs-arg: inspection executed run()',
                                     f'pipeline numbers -> tab (data class whose constructor requires an argument) -> summary, results {"stored" if computed_before else "missing"}: '
                                     f'has_data / data_path / run_info / log / tasks_df / readable links ran {runs}', {'kind': 'needs-arg'}))
    finally:
        scratch.drop(root)
    return out


QUICK = ['chain3', 'mount2', 'lazy', 'mem', 'empties', 'owndata']
ALL = ['chain3', 'diamond', 'mount2', 'optpat', 'lazy', 'mem', 'shared', 'uses2', 'empties', 'owndata']


def plan(tier):
    out = []
    for name in (QUICK if tier == 'quick' else ALL):
        desc = get_desc(name)
        sp = specs.build(desc, ops=('new', 'value', 'inspect', 'restart'), slots=2)
        if tier == 'quick':
            sp['variants'] = sp['variants'][:2]
            d0, d1 = 3, 4
        else:
            sp['variants'] = sp['variants'][:3]
            d0, d1 = 3, (6 if name in ('chain3', 'diamond', 'mount2', 'mem') else 5)
        out.append((desc, sp, d0, d1))
    # focused deeper run on a two-task slice: inspect-then-compute-elsewhere-then-request needs five operations
    desc = get_desc('chain3')
    desc['name'] = 'chain3'
    sp = specs.build(desc, variants=['v0'], ops=('new', 'value', 'inspect', 'restart'), slots=2, tasks=['a', 'b'])
    out.append((desc, sp, 2, 5 if tier == 'quick' else 7))
    # name mode (results stored under config names): inspection calls, incl. readable links, must not touch results
    desc = families.namemode()
    sp = specs.build(desc, ops=('new', 'value', 'inspect', 'restart'), slots=2, tasks=['a', 'c'], parameter_mode=False)
    out.append((desc, sp, 3, 4 if tier == 'quick' else 6))
    return out


def run(tier, seed):
    res = Result()
    for desc, sp, d0, d1 in plan(tier):
        r = histories.explore(desc, sp, 'tcv.checks.c04:judge', d0, d1, seed=seed)
        cov = r.coverage
        res.coverage.setdefault('per_world', {})[f"{desc['name']}/{len(sp['variants'])}v/d{d1}"] = dict(states=cov['states'], transitions=cov['transitions'], executions=cov['executions'],
                                                                      stateless_depth=d0, merged_depth=cov['depth_completed'],
                                                                      distinct_observation_vectors=cov['distinct_observation_vectors'])
        res.add('states', cov['states'])
        res.add('transitions', cov['transitions'])
        res.add('evaluations', cov['executions'])
        res.add('distinct_nontrivial', cov['distinct_observation_vectors'])
        res.violations.extend(r.violations)
        res.sample({'world': desc['name'], 'variants': sp['variants'], 'tasks': sp['tasks'][sp['variants'][0]]})
    # real interpreter boundaries: every sequence of <= k segments, each segment in its own fresh process on one data directory
    from tcv import procleg
    for wname, variants, tasks in (('chain3', ['v0', 'v1'], ['a', 'c']), ('mount2', ['v12', 'v21'], ['n2::y', 'z'])):
        if tier == 'quick' and wname == 'chain3':
            continue  # quick: one world, 20 histories / 36 interpreter starts
        desc = families.ALL[wname]()
        r = procleg.run_leg('C04', desc, variants if tier == 'quick' else list(desc['variants'])[:3], tasks, 2 if tier == 'quick' else 3, seed)
        res.coverage.setdefault('process_leg', {})[wname] = dict(histories=r.coverage.get('process_histories', 0), interpreter_starts=r.coverage.get('interpreter_starts', 0))
        res.add('evaluations', r.coverage.get('evaluations', 0))
        res.add('transitions', r.coverage.get('transitions', 0))
        res.violations.extend(r.violations)
    res.merge(_namemode_templates())
    res.violations.extend(_unreadable_result_scenario())
    res.violations.extend(_needs_arg_scenario())
    res.add('evaluations', 2)
    # a task registry that outlives a chain (what MultiChain does, spread over time): the in-memory task shared by the chains runs once
    from tcv.checks import c13
    for sig, what in c13.namespace_scenarios():
        if 'computed again' in sig or 'registry' in sig:
            res.violations.append(Violation(f'registry: {sig}', what, {'kind': 'registry'}))
    res.add('evaluations')
    res.coverage['traces_validated_against_impl'] = res.coverage['evaluations']
    res.coverage['exhaustive'] = True
    res.coverage['rule'] = ('per world: every history over {new(slot,variant), value(slot,task), inspect(slot), restart}, two live slots, up to the stateless depth, then '
                            'canonical-state-merged BFS to the merged depth; oracle after every step: invocation-log delta == predicted multiset of runs; '
                            'distinct_nontrivial = distinct observation vectors')
    res.assumptions += ['"restart" drops every live object in-process; real interpreter restarts are exercised by the process leg',
                        'the runs of one request are compared as a multiset (which computations ran, how often); their order is not part of the property']
    return res


def replay(case):
    import tcv

    tcv.quiet_library()
    if case.get('kind') == 'unreadable':
        return _unreadable_result_scenario()
    if case.get('kind') == 'needs-arg':
        return _needs_arg_scenario()
    if case.get('kind') == 'registry':
        from tcv.checks import c13
        from tcv.core import Violation as V
        return [V(f'registry: {sig}', what, case) for sig, what in c13.namespace_scenarios() if 'computed again' in sig or 'registry' in sig]
    if case.get('kind') == 'proc':
        from tcv import procleg
        from tcv.core import Violation as V
        vs, n = procleg._job((families.ALL[case['world']](), case['segs'], 'C04', 0))
        return [V(v['signature'], v['what'], v['case']) for v in vs]
    desc = get_desc(case['world'])
    sp = specs.build(desc, ops=('new',))
    vs, c, ov = histories.run_history(desc, case['hist'], judge(desc, sp), parameter_mode=not desc['name'].startswith('namemode'))
    return vs
