"""C15 - file caches stay consistent under concurrent use.

S: all interleavings (iterative preemption bounding 0,1,2[,3]) of 2-3 concurrent callers of the real FileCache.get /
get_or_compute on ONE key, each with its own cache instance over one directory (as separate processes would have), at
file-system/lock granularity under the cooperative scheduler tcv/sched.py.
"""
import json
import os

from tcv import sched, scratch
from tcv.core import HarnessError, Result, Violation, digest
from tcv.pool import pmap

KEY = 'the key'
NOV = '<NO_VALUE>'


def harnesses():
    """name -> dict(ctype, prepopulate, callers [(name, kind, start_after)])  kinds: goc | force | get"""
    return {
        'H1-empty': dict(ctype='json', old=False, callers=[('A', 'goc', None), ('B', 'goc', None), ('G', 'get', None)]),
        'H2-present-forced': dict(ctype='json', old=True, callers=[('A', 'force', None), ('B', 'goc', None), ('G', 'get', None)]),
        'H3-two-forced': dict(ctype='json', old=True, callers=[('A', 'force', None), ('B', 'force', None), ('G', 'get', None)]),
        'H4-happens-before': dict(ctype='json', old=False, callers=[('A', 'goc', None), ('B', 'force', None), ('C', 'goc', 'A')]),
        'H5-numpy': dict(ctype='numpy', old=True, callers=[('A', 'force', None), ('B', 'goc', None), ('G', 'get', None)]),
        'H7-numpy-reader': dict(ctype='numpy', old=True, callers=[('A', 'force', None), ('G', 'get', None)]),
        'H8-frame-reader': dict(ctype='frame', old=True, callers=[('A', 'force', None), ('B', 'goc', None)]),
        'H6-two-writers-reader': dict(ctype='json', old=False, callers=[('A', 'goc', None), ('B', 'force', None)]),
        # lock hand-over A -> reader -> B: A and B both miss, A stores and returns, a reader that starts then is loading while B (queued behind A) stores
        # ONE cache directory opened in two ways: as a sub-cache of its parent (what `cached` does) and directly by its path
        'H11-two-openings': dict(ctype='json', old=False, callers=[('A', 'goc', None), ('B', 'force', None)], opening={'A': 'sub', 'B': 'direct'}),
        'H10-handover': dict(ctype='json', old=False, callers=[('A', 'goc', None), ('B', 'goc', None), ('G', 'get', 'A')]),
    }


def _value(ctype, who):
    if ctype == 'json':
        return {'by': who, 'pad': 'x' * 8}
    import numpy as np
    if ctype == 'frame':
        import pandas as pd
        return pd.DataFrame({'by': [who, who], 'n': [1, 2]})

    return np.array([ord(c) for c in who] * 3, dtype=np.int64)


def _who(ctype, v):
    """which completed computation produced v (None if it is not a complete value of this harness)"""
    from taskchain.cache import NO_VALUE

    if v is NO_VALUE or (isinstance(v, str) and v == NOV):
        return NOV
    if ctype == 'json':
        if isinstance(v, dict) and set(v) == {'by', 'pad'} and v['pad'] == 'x' * 8:
            return v['by']
        return None
    import numpy as np
    if ctype == 'frame':
        import pandas as pd
        if isinstance(v, pd.DataFrame) and list(v.columns) == ['by', 'n'] and v['n'].tolist() == [1, 2] and v['by'].nunique() == 1:
            return v['by'].iloc[0]
        return None

    if isinstance(v, np.ndarray) and v.dtype == np.int64 and v.shape[0] % 3 == 0 and v.shape[0] > 0:
        n = v.shape[0] // 3
        s = ''.join(chr(int(c)) for c in v[:n])
        if v.tolist() == [ord(c) for c in s] * 3:
            return s
    return None


def make_cache(ctype, d):
    from taskchain.cache import DataFrameCache, JsonCache, NumpyArrayCache

    return {'json': JsonCache, 'numpy': NumpyArrayCache, 'frame': DataFrameCache}[ctype](d)


def execute(hname, choices, procs=False):
    """one controlled execution; procs=True: every caller is its own forked process (sched.ProcRun)"""
    h = harnesses()[hname]
    d = scratch.fresh('c15')
    ctype = h['ctype']
    try:
        if h['old']:
            make_cache(ctype, d).get_or_compute(KEY, lambda: _value(ctype, 'old'))
        computed = []
        bodies = []
        run_holder = []

        opening = h.get('opening')
        if opening:
            top = d
            d = os.path.join(top, 'features')

        def body_for(name, kind):
            def body():
                c = make_cache(ctype, d) if not opening or opening[name] == 'direct' else make_cache(ctype, top).subcache('features')

                def comp():
                    run_holder[0].point('compute', name)
                    computed.append(name)
                    return _value(ctype, name)
                from taskchain.cache import NO_VALUE
                r = c.get(KEY) if kind == 'get' else c.get_or_compute(KEY, comp, force=(kind == 'force'))
                return NOV if (procs and r is NO_VALUE) else r
            return body
        for name, kind, after in h['callers']:
            bodies.append((name, body_for(name, kind), after))
        if procs:
            class _Here:  # inside a caller process the armed run is the child's stand-in
                @staticmethod
                def point(op, detail):
                    sched._CURRENT[0].point(op, detail)
            run_holder.append(_Here)
            run = sched.ProcRun(d, bodies, choices)
            run.execute()
            computed = [who for who, op, detail in run.trace if op == 'compute']  # the computer runs right after its point
        else:
            run = sched.Run(d, bodies, choices)
            run_holder.append(run)
            with sched.armed():
                run.execute()
        # final state
        path = make_cache(ctype, d).filepath(KEY)
        final = None
        if path.exists():
            try:
                final = _who(ctype, make_cache(ctype, d).load_value(path, KEY))
            except Exception as e:  # noqa
                final = f'unreadable: {type(e).__name__}'
        else:
            final = 'missing'
        return run, computed, final
    finally:
        scratch.drop(top if opening else d)


def judge(hname, run, computed, final):
    """-> list of (kind, msg)"""
    h = harnesses()[hname]
    ctype = h['ctype']
    out = []
    if run.deadlock:
        return [('deadlock', f'no enabled caller: {run.deadlock}')]
    trace = run.trace
    # who completed a computation (computer returned) - every `compute` point is followed by the return of the value
    produced = set(computed) | ({'old'} if h['old'] else set())
    results = {}
    for w in run.workers:
        st, val = w.result
        kind = next(k for n, k, a in h['callers'] if n == w.name)
        if st == 'exc':
            if isinstance(val, HarnessError):
                raise val
            out.append((f'{kind} call failed because of a concurrent write', f'caller {w.name} ({kind}) raised {type(val).__name__}: {val}'))
            continue
        who = _who(ctype, val)
        results[w.name] = who
        if who is None:
            out.append((f'{kind} returned a partially written / foreign value', f'caller {w.name} ({kind}) returned {val!r}'))
        elif who == NOV:
            if kind != 'get':
                out.append(('get_or_compute returned NO_VALUE', f'caller {w.name}'))
        elif who not in produced:
            out.append((f'{kind} returned a value no completed computation produced', f'caller {w.name} returned the value of {who}, completed: {sorted(produced)}'))
    # mutual exclusion: between a caller's compute and its next lock release nobody else computes, writes or publishes
    inside = None
    for who, op, detail in trace:
        if op == 'compute':
            if inside is not None and inside != who:
                out.append(('two callers inside compute+save at once', f'{who} computes while {inside} has not finished its compute+save'))
            inside = who
        elif op in ('open_w', 'write1', 'write2', 'replace'):
            if inside is not None and inside != who:
                out.append(('two callers inside compute+save at once', f'{who} writes while {inside} is between compute and the end of its save'))
        elif op in ('release', 'finish') and inside == who:
            inside = None
    # quiescence: the entry is complete and is the value of the last writer in lock order
    writers = [who for who, op, detail in trace if op == 'compute']
    if writers:
        if final != writers[-1]:
            out.append(('entry at quiescence is not the last writer\'s complete value', f'file holds {final!r}, last writer in lock order {writers[-1]}'))
    elif h['old'] and final != 'old':
        out.append(('entry at quiescence damaged although nobody wrote', f'file holds {final!r}'))
    # "a call that starts after another call for the key has returned does not recompute unless forced" (and a `get`
    # that starts then finds the value): an earlier call has returned if the harness pre-populated the entry or some
    # get_or_compute caller finished before this caller's start
    kinds = {n: k for n, k, a in h['callers']}
    for name, kind, after in h['callers']:
        if kind == 'force':
            continue
        start = next((i for i, t in enumerate(trace) if t[0] == name and t[1] == 'start'), None)
        if start is None:
            continue
        earlier = sorted(t[0] for t in trace[:start] if t[1] == 'finish' and kinds[t[0]] != 'get' and run.workers[[w.name for w in run.workers].index(t[0])].result[0] == 'ok')
        if not (h['old'] or earlier):
            continue
        why = 'the entry was stored before anybody started' if h['old'] else f'{earlier} had returned'
        if kind == 'goc' and name in computed:
            out.append(('late caller recomputed although an earlier call had returned', f'{name} (not forced) started after {why}, yet it called its computer'))
        if kind == 'get' and results.get(name) == NOV:
            out.append(('get found nothing although an earlier call had returned', f'{name} started after {why}, yet get returned NO_VALUE'))
    return out


def _last_open_mode(trace, who, upto):
    idx = trace.index(upto)
    for w2, op, d in reversed(trace[:idx]):
        if w2 == who and op in ('open_w', 'open_r'):
            return op
    return None


def _write_open_at(trace, idx, name):
    """some other caller is between open_w and close at trace position idx"""
    open_by = set()
    for who, op, d in trace[:idx]:
        if op == 'open_w':
            open_by.add(who)
        elif op == 'close' and who in open_by and _last_open_mode(trace, who, (who, op, d)) == 'open_w':
            open_by.discard(who)
    return bool(open_by - {name})


KEYS2 = ('key-81', 'key-375')   # sha256 of both starts with d63ad: same bucket directory, different entries


def execute_two_keys(choices, ctype='json'):
    """two callers, two DIFFERENT keys that live in one bucket directory: neither call disturbs the other"""
    d = scratch.fresh('c15k')
    try:
        run_holder = []

        def body_for(name, key):
            def body():
                c = make_cache(ctype, d)

                def comp():
                    run_holder[0].point('compute', name)
                    return _value(ctype, name)
                return c.get_or_compute(key, comp)
            return body
        run = sched.Run(d, [('A', body_for('A', KEYS2[0]), None), ('B', body_for('B', KEYS2[1]), None)], choices)
        run_holder.append(run)
        with sched.armed():
            run.execute()
        finals = {}
        for name, key in zip('AB', KEYS2):
            try:
                v = make_cache(ctype, d).get(key)
                finals[name] = _who(ctype, v)
            except Exception as e:  # noqa
                finals[name] = f'raised {type(e).__name__}'
        return run, finals
    finally:
        scratch.drop(d)


def judge_two_keys(run, finals, ctype='json'):
    out = []
    if run.deadlock:
        return [('deadlock', f'no enabled caller: {run.deadlock}')]
    for w in run.workers:
        st, val = w.result
        if st == 'exc':
            if isinstance(val, HarnessError):
                raise val
            out.append(('call on one key failed because of a call on another key', f'caller {w.name} raised {type(val).__name__}: {val}'))
        elif _who(ctype, val) != w.name:
            out.append(('call on one key returned the value of another key', f'caller {w.name} got {val!r}'))
    for name in 'AB':
        if finals[name] != name:
            out.append(('entry of one key holds the value of another key (or nothing) at quiescence', f'key of {name}: {finals[name]!r}'))
    return out


def _explore_two_keys(args):
    import tcv

    tcv.quiet_library()
    bound, ctype = args
    res = Result()

    def make(choices):
        run, finals = execute_two_keys(choices, ctype)
        run._finals = finals
        return run
    n = 0
    for run in sched.explore(make, bound):
        n += 1
        res.add('evaluations')
        res.add('transitions', len(run.points))
        for kind, msg in judge_two_keys(run, run._finals, ctype):
            ch = [p['chosen'] for p in run.points]
            res.violations.append(Violation(f'H9: {kind}', f'two keys in one bucket directory, {ctype} cache, schedule {ch}: {msg}', {'harness': 'H9-two-keys', 'choices': ch, 'ctype': ctype}))
        if len(res.violations) > 10:
            break
    res.coverage['harness:H9-two-keys/' + ctype] = {'schedules': n, 'preemption_bound': bound}
    return res


def _explore(args):
    """explore the subtree below `root` (root=None: only the default schedule, returning the subtree roots)"""
    import tcv

    tcv.quiet_library()
    hname, bound, cap, root = args[:4]
    procs = len(args) > 4 and args[4]
    res = Result()
    outcomes = set()
    windows = 0

    def make(choices):
        run, computed, final = execute(hname, choices, procs)
        run._computed, run._final = computed, final
        return run
    n = 0
    roots = None
    if root is None:
        first = make([])
        roots = sched.children(first, 0, bound)
        runs = [first]
    else:
        runs = sched.explore(make, bound, max_schedules=cap, root=root)
    last = None
    for run in runs:
        n += 1
        last = run
        res.add('evaluations')
        res.add('transitions', len(run.points))
        bad = judge(hname, run, run._computed, run._final)
        sig = (tuple(sorted((w.name, str(_who(harnesses()[hname]['ctype'], w.result[1])) if w.result[0] == 'ok' else 'exc') for w in run.workers)), run._final, tuple(run._computed))
        outcomes.add(sig)
        # vacuity witness: a reader opened/read the file while a writer had it truncated / half written
        t = run.trace
        for i, (who, op, d) in enumerate(t):
            if op in ('open_r', 'read') and _write_open_at(t, i, who):
                windows += 1
                break
        for kind, msg in bad:
            ch = [p['chosen'] for p in run.points]
            res.violations.append(Violation(f'{hname.split("-")[0]}{" (processes)" if procs else ""}: {kind}', f'harness {hname}, schedule {ch} (trace {[(w, o) for w, o, d in t]}): {msg}',
                                            {'harness': hname, 'choices': ch, 'procs': procs}))
        if len(res.violations) > 30:
            break
    capped = bool(cap and n >= cap)
    res.coverage[f'harness:{hname}{"/procs" if procs else ""}'] = {'schedules': n, 'reader_in_write_window': windows, 'capped_subtrees': int(capped)}
    res.coverage['_outcomes'] = [[hname + ('/procs' if procs else ''), repr(o)] for o in outcomes]
    if root is not None and last is not None and (hash(tuple(root)) % 7 == 0):
        # replay-twice determinism on the last schedule of this subtree
        ch = [p['chosen'] for p in last.points]
        r2, c2, f2 = execute(hname, ch, procs)
        if [(w, o) for w, o, d in r2.trace] != [(w, o) for w, o, d in last.trace] or f2 != last._final:
            res.harness_errors.append(f'{hname}: schedule {ch} does not replay deterministically')
        res.add('replayed_twice')
        res.sample({'harness': hname, 'schedule': ch, 'trace': [(w, o) for w, o, d in last.trace][:40]}, limit=2)
    return res, roots


def free_running_smoke(rounds=15):
    """the same caller bodies on real threads with the real FileLock and NO scheduler: a smoke test of the harness bodies
    themselves (not evidence: the OS decides the interleaving)"""
    import threading

    from taskchain.cache import NO_VALUE
    bad = []
    n = 0
    for hname, h in harnesses().items():
        ctype = h['ctype']
        for r in range(rounds):
            d = scratch.fresh('c15f')
            try:
                if h['old']:
                    make_cache(ctype, d).get_or_compute(KEY, lambda: _value(ctype, 'old'))
                results = {}
                done = {}

                def body(name, kind, after):
                    if after:
                        done[after].wait(20)
                    c = make_cache(ctype, d)
                    try:
                        if kind == 'get':
                            results[name] = ('ok', c.get(KEY))
                        else:
                            results[name] = ('ok', c.get_or_compute(KEY, lambda: _value(ctype, name), force=(kind == 'force')))
                    except Exception as e:  # noqa
                        results[name] = ('exc', e)
                    done[name].set()
                ths = []
                for name, kind, after in h['callers']:
                    done[name] = threading.Event()
                for name, kind, after in h['callers']:
                    t = threading.Thread(target=body, args=(name, kind, after), daemon=True)
                    ths.append(t)
                for t in ths:
                    t.start()
                for t in ths:
                    t.join(30)
                n += 1
                for name, (st, val) in results.items():
                    if st == 'exc':
                        bad.append(f'{hname} round {r}: caller {name} raised {type(val).__name__}: {val}')
                    elif _who(ctype, val) is None:
                        bad.append(f'{hname} round {r}: caller {name} returned an incomplete value {val!r}')
                path = make_cache(ctype, d).filepath(KEY)
                if path.exists() and _who(ctype, make_cache(ctype, d).load_value(path, KEY)) is None:
                    bad.append(f'{hname} round {r}: entry at quiescence incomplete')
            finally:
                scratch.drop(d)
    return n, bad


PLAN = {
    'quick': [('H1-empty', 2, False), ('H2-present-forced', 2, True), ('H4-happens-before', 2, True), ('H6-two-writers-reader', 3, False), ('H3-two-forced', 2, True),
              ('H7-numpy-reader', 2, True), ('H8-frame-reader', 2, True), ('H10-handover', 4, True), ('H11-two-openings', 2, False)],
    'thorough': [('H1-empty', 3, False), ('H2-present-forced', 3, True), ('H3-two-forced', 3, True), ('H4-happens-before', 4, True), ('H5-numpy', 2, True), ('H6-two-writers-reader', 8, False), ('H7-numpy-reader', 4, True), ('H8-frame-reader', 4, True), ('H10-handover', 5, True), ('H11-two-openings', 4, False)],
}


# the same harnesses with every caller in its own forked process (real inter-process flock, no shared Python state)
PLAN_PROCS = {
    'quick': [('H6-two-writers-reader', 2), ('H2-present-forced', 1), ('H7-numpy-reader', 2)],
    'thorough': [('H1-empty', 2), ('H2-present-forced', 2), ('H3-two-forced', 2), ('H4-happens-before', 2), ('H5-numpy', 1), ('H6-two-writers-reader', 4), ('H7-numpy-reader', 3),
                 ('H8-frame-reader', 2)],
}


def _inmemory_job(args):
    """InMemoryCache keeps values per thread: callers on other threads never matter to what a thread sees. Threads that share ONE
    InMemoryCache (and reach the same sub-cache by name, as `cached` does) each compute a key once - a call that starts after an earlier
    call of the same thread has returned gets that value. Every interleaving at SOURCE-LINE granularity inside taskchain/cache.py with at
    most `bound` preemptions; root=None: the default schedule only, returning the subtree roots."""
    import tcv
    import taskchain.cache as cache

    tcv.quiet_library()
    nthreads, bound, root = args
    res = Result()
    roots = []

    def make(choices):
        shared = cache.InMemoryCache()
        counts = {}

        def body_for(name):
            def body():
                def computer():
                    counts[name] = counts.get(name, 0) + 1
                    return (name, counts[name])
                a = shared.subcache('features').get_or_compute('k', computer)
                b = shared.subcache('features').get_or_compute('k', computer)
                c = shared.subcache('features').get('k')
                return [a, b, c]
            return body
        r = sched.Run('/nonexistent', [(n, body_for(n), None) for n in 'ABC'[:nthreads]], choices, horizon=20000, trace_files=(cache.__file__,)).execute()
        r.counts = counts
        return r

    if root is None:
        first = make([])
        roots = sched.children(first, 0, bound)
        runs = [first]
    else:
        runs = sched.explore(make, bound, root=root)
    outcomes = set()
    for r in runs:
        res.add('evaluations')
        res.add('schedules')
        res.add('transitions', len(r.points))
        for w in r.workers:
            got = w.result[1] if w.result[0] == 'ok' else repr(w.result)
            outcomes.add(repr((w.name, got)))
            if got != [(w.name, 1)] * 3 or r.counts.get(w.name) != 1:
                res.violations.append(Violation('H12: a call that starts after an earlier call of the same thread has returned recomputes / misses the value',
                                                f'{nthreads} threads on one InMemoryCache, each: subcache(features).get_or_compute(k) twice, then get(k); schedule '
                                                f'{[p["chosen"] for p in r.points if p["n"] > 1]}: thread {w.name} got {got}, computed {r.counts.get(w.name)} time(s)',
                                                {'harness': 'H12-inmemory', 'nthreads': nthreads, 'bound': bound}))
                break
        if len(res.violations) >= 5:
            break
    res.coverage['_h12'] = sorted(outcomes)
    return res, roots


def inmemory_threads(tier):
    res = Result()
    plan = [(2, 2)] if tier == 'quick' else [(2, 3), (3, 2)]
    jobs = []
    outcomes = set()
    for (n, b), (r, roots) in zip(plan, pmap(_inmemory_job, [(n, b, None) for n, b in plan])):
        outcomes |= set(r.coverage.pop('_h12', []))
        res.merge(r)
        jobs += [(n, b, root) for root in roots]
    for r, _ in pmap(_inmemory_job, jobs, chunksize=4):
        outcomes |= set(r.coverage.pop('_h12', []))
        res.merge(r)
    res.coverage.pop('_h12', None)
    res.coverage['inmemory_threads'] = {'plan (threads, preemption bound)': plan, 'schedules': res.coverage.pop('schedules', 0), 'granularity': 'source line in taskchain/cache.py',
                                        'distinct_outcomes': len(outcomes)}
    return res


def run(tier, seed):
    import tcv

    tcv.quiet_library()
    plan = PLAN[tier]
    pplan = PLAN_PROCS[tier]
    res = Result()
    jobs = []
    for (r, roots), (hname, bound, expect) in zip(pmap(_explore, [(h, b, None, None) for h, b, e in plan]), plan):
        res.merge(r)
        jobs += [(hname, bound, 20000 if tier == 'quick' else 200000, root) for root in roots]
    for (r, roots), (hname, bound) in zip(pmap(_explore, [(h, b, None, None, True) for h, b in pplan]), pplan):
        res.merge(r)
        jobs += [(hname, bound, 20000 if tier == 'quick' else 200000, root, True) for root in roots]
    k = seed % max(1, len(jobs))
    jobs = jobs[k:] + jobs[:k]
    for r, _ in pmap(_explore, jobs, chunksize=2):
        res.merge(r)
    for r in pmap(_explore_two_keys, [(2 if tier == 'quick' else 3, 'json'), (2, 'numpy')]):
        res.merge(r)
    res.merge(inmemory_threads(tier))
    res.coverage['two_keys_one_bucket'] = {k.split('/')[-1]: res.coverage.pop(k) for k in list(res.coverage) if k.startswith('harness:H9-two-keys/')}
    outs = res.coverage.pop('_outcomes', [])
    per = {h: res.coverage.pop(f'harness:{h}') for h, b, e in plan}
    res.coverage['per_harness'] = per
    pper = {h: res.coverage.pop(f'harness:{h}/procs') for h, b in pplan}
    for hname, bound in pplan:
        pper[hname]['preemption_bound'] = bound
        pper[hname]['distinct_outcomes'] = len({o for h, o in outs if h == hname + '/procs'})
    res.coverage['per_harness_processes'] = pper
    for hname, bound, expect in plan:
        per[hname]['preemption_bound'] = bound
        per[hname]['distinct_outcomes'] = len({o for h, o in outs if h == hname})
        if expect and per[hname]['reader_in_write_window'] == 0 and not res.violations:  # (exploration of a harness stops early once it has 30 violations)
            res.harness_errors.append(f'{hname}: vacuous - no schedule put a reader into a write window')
    nfree, bad = free_running_smoke(8 if tier == 'quick' else 40)
    res.coverage['free_running_smoke_runs'] = nfree
    res.coverage['free_running_smoke_failures'] = len(bad)
    for b in (bad if not res.violations else []):  # with violations found under control a failing free run is expected, not a harness problem
        res.harness_errors.append(f'free-running smoke test of the harness bodies failed although no controlled schedule did: {b}')
    res.coverage['states'] = sum(p['distinct_outcomes'] for p in per.values())
    res.coverage['distinct_nontrivial'] = res.coverage['states']
    res.coverage['traces_validated_against_impl'] = res.coverage['evaluations']
    res.coverage['exhaustive'] = not any(h.get('capped_subtrees') for h in list(per.values()) + list(pper.values()))
    res.coverage['rule'] = ('per harness: every schedule with at most the stated number of preemptions (stateless DFS, choice 0 = keep running the current caller) at the visible operations '
                            'lock-acquire/release, exists, open, read, truncating open, each half of each write, close, unlink, compute; distinct_nontrivial = distinct (returned values, final '
                            'entry, computations) outcomes')
    res.assumptions += ['thread legs: callers are threads with their own cache instances; process legs: callers are forked processes - same visible operations, same explorer',
                        'operations between two visible operations are atomic; the lock model is bound to the real FileLock by a timeout=0 acquisition at every grant',
                        'a call "starts after another call has returned" if the entry was stored before the harness started its callers or a get_or_compute caller finished before its first step']
    return res


def replay(case):
    import tcv

    tcv.quiet_library()
    if case.get('harness') == 'H12-inmemory':
        return inmemory_threads('quick').violations
    if case.get('harness') == 'H9-two-keys':
        run, finals = execute_two_keys(case['choices'], case.get('ctype', 'json'))
        return [Violation(f'H9: {k}', m, case) for k, m in judge_two_keys(run, finals, case.get('ctype', 'json'))]
    procs = bool(case.get('procs'))
    run, computed, final = execute(case['harness'], case['choices'], procs)
    return [Violation(f'{case["harness"].split("-")[0]}{" (processes)" if procs else ""}: {k}', m, case) for k, m in judge(case['harness'], run, computed, final)]
