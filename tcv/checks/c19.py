"""C19 - test helpers compute what the real chain computes.

X differential: every task shape of a bounded family (0-2 inputs by class / by name, 0-2 parameters required / defaulted /
parameter object / chain-aware object, run by arguments or by registry access) x assignments of mock values and parameter
values: value from create_test_task and from TestChain == value from a generated REAL chain whose upstream tasks are
constant tasks returning exactly the mock values; mocks are never run and never persisted; a missing input or required
parameter is reported by the helper's constructor.
"""
import copy
import itertools
import os
from pathlib import Path

from tcv import scratch
from tcv.core import Result, Violation
from tcv.pool import pmap

MOCK_VALUES = [0, '', [1], {'a': None}, None, 'v']
TYPE_ANN = {int: 'int', str: 'str', list: 'list', dict: 'dict'}


def shapes(tier):
    in_forms = [()] + [(a,) for a in ('class', 'name')] + list(itertools.product(('class', 'name'), repeat=2))
    p_kinds = ('required', 'defaulted', 'object', 'chainobj', 'renamed')
    p_forms = [()] + [(a,) for a in p_kinds] + list(itertools.product(p_kinds, repeat=2))
    out = []
    for ins, ps, style in itertools.product(in_forms, p_forms, ('args', 'registry')):
        if tier == 'quick' and len(ins) + len(ps) > 3:
            continue
        out.append({'inputs': list(ins), 'params': list(ps), 'style': style})
        if ins and (tier != 'quick' or len(ps) <= 1):
            out.append({'inputs': list(ins), 'params': list(ps), 'style': style, 'grouped': True})  # upstream tasks live in a group
    return out


def build_classes(shape, mock_types):
    """-> (namespace dict with classes U0.., T and helper objects)"""
    from taskchain import Parameter, Task
    from taskchain.chain import ChainObject
    from taskchain.parameter import ParameterObject

    ns = {'Task': Task, 'Parameter': Parameter, 'ChainObject': ChainObject, 'ParameterObject': ParameterObject, 'copy': copy, 'RUNS': []}
    src = '''
class Obj(ParameterObject):
    def __init__(self, x):
        self.x = x
    def repr(self):
        return f'Obj({self.x!r})'

class CObj(ChainObject, ParameterObject):
    def __init__(self, x):
        self.x = x
        self.seen = 'init_chain not called'
    def init_chain(self, chain):
        self.seen = [len(chain.tasks), 'tested' in chain.tasks]  # (names of mocked tasks are the caller's choice)
    def repr(self):
        return f'CObj({self.x!r})'
'''
    for i, form in enumerate(shape['inputs']):
        ann = TYPE_ANN.get(mock_types[i], 'dict')
        src += f'''
class Up{i}(Task):
    class Meta:
        name = 'up{i}'
        {"task_group = 'grp'" if shape.get('grouped') else 'pass'}
        parameters = [Parameter('c{i}')]
    def run(self, c{i}) -> {ann}:
        RUNS.append('up{i}')
        return copy.deepcopy(c{i})
'''
    params = []
    for j, kind in enumerate(shape['params']):
        if kind == 'defaulted':
            params.append(f"Parameter('p{j}', default={'dflt%d' % j!r})")
        elif kind == 'renamed':
            params.append(f"Parameter('p{j}', name_in_config='cfg_key_{j}', default='rdflt')")
        else:
            params.append(f"Parameter('p{j}')")
    inputs = [(f'Up{i}' if form == 'class' else repr(f'up{i}')) for i, form in enumerate(shape['inputs'])]
    argn = [f'p{j}' for j in range(len(shape['params']))] + [f'up{i}' for i in range(len(shape['inputs']))]
    if shape['style'] == 'args':
        sig = ', '.join(['self'] + argn)
        body = '{' + ', '.join(f'{a!r}: _plain({a})' for a in argn) + '}'
    else:
        sig = 'self'
        body = '{' + ', '.join([f"'p{j}': _plain(self.params['p{j}'])" for j in range(len(shape['params']))] +
                               [f"'up{i}': _plain(self.input_tasks['up{i}'].value)" for i in range(len(shape['inputs']))]) + '}'
    src += f'''
def _plain(v):
    if isinstance(v, Obj):
        return ['Obj', v.x]
    if isinstance(v, CObj):
        return ['CObj', v.x, v.seen]
    return copy.deepcopy(v)

class Tested(Task):
    class Meta:
        name = 'tested'
        parameters = [{', '.join(params)}]
        input_tasks = [{', '.join(inputs)}]
    def run({sig}) -> dict:
        RUNS.append('tested')
        return {body}
'''
    exec(src, ns)
    for k, v in ns.items():
        if isinstance(v, type) and v.__module__ == 'builtins':
            v.__module__ = 'tcv.checks.c19'
    return ns


def assignments(shape, tier):
    n_in, n_p = len(shape['inputs']), len(shape['params'])
    mock_sets = list(itertools.product(MOCK_VALUES if n_in <= 1 or tier != 'quick' else MOCK_VALUES[:5:2] + [None], repeat=n_in))
    out = []
    for mocks in mock_sets:
        # parameter values: given / omitted for defaulted ones
        opts = []
        for j, kind in enumerate(shape['params']):
            if kind == 'required':
                opts.append([('given', [7, 'x'][j % 2]), ('given', None)])
            elif kind == 'defaulted':
                opts.append([('given', 'explicit'), ('omitted', None), ('given', None)])
            elif kind == 'object':
                opts.append([('obj', j)])
            elif kind == 'renamed':
                opts.append([('renamed', 'from-config-key'), ('omitted_renamed', None)])
            else:
                opts.append([('cobj', j)])
        for combo in itertools.product(*opts):
            out.append((list(mocks), list(combo)))
    return out


def check(shape, mocks, pvals, base):
    from taskchain import Config
    from taskchain.utils.testing import TestChain, create_test_task

    out = []
    ns = build_classes(shape, [type(m) for m in mocks])
    T = ns['Tested']

    def params(fresh=True):
        p = {}
        for j, (how, v) in enumerate(pvals):
            if how == 'given':
                p[f'p{j}'] = v
            elif how == 'obj':
                p[f'p{j}'] = ns['Obj'](v)
            elif how == 'cobj':
                p[f'p{j}'] = ns['CObj'](v)
            elif how == 'renamed':
                p[f'cfg_key_{j}'] = v       # the value lives under the parameter's name_in_config
                p[f'p{j}'] = 'decoy: the parameter name itself is not a config key'
        return p
    exp_args = {}
    for j, (how, v) in enumerate(pvals):
        exp_args[f'p{j}'] = {'given': v, 'omitted': f'dflt{j}', 'obj': ['Obj', v], 'cobj': ['CObj', v, None], 'renamed': v, 'omitted_renamed': 'rdflt'}[how]
    for i, m in enumerate(mocks):
        exp_args[f'up{i}'] = copy.deepcopy(m)
    names = [1 + len(mocks), True]
    for k, v in exp_args.items():
        if isinstance(v, list) and v and v[0] == 'CObj':
            v[2] = names
    # ---- real chain (only when every mock value is something a real JSON task can return)
    real_val = None
    if all(type(m) in TYPE_ANN for m in mocks):
        data = {'tasks': [ns[f'Up{i}'] for i in range(len(mocks))] + [T]}
        data.update({f'c{i}': copy.deepcopy(m) for i, m in enumerate(mocks)})
        data.update(params())
        try:
            real_val = Config(Path(base) / 'real', name='real', data=data).chain()['tested'].value
        except Exception as e:  # noqa
            return [('REAL chain failed (harness)', f'{type(e).__name__}: {e}')]
        if real_val != exp_args:
            return [('REAL chain value differs from the harness expectation (harness)', f'{real_val} vs {exp_args}')]
    # ---- helpers
    for helper in ('create_test_task', 'TestChain'):
        for keying in ('as_declared', 'by_name'):
            ns['RUNS'].clear()
            hb = Path(base) / f'{helper}_{keying}'
            mock_map = {}
            for i, (form, m) in enumerate(zip(shape['inputs'], mocks)):
                key = ns[f'Up{i}'] if (form == 'class' and keying == 'as_declared') else ns[f'Up{i}'].slugname  # the task's name incl. its group
                mock_map[key] = copy.deepcopy(m)
            try:
                if helper == 'create_test_task':
                    t = create_test_task(T, input_tasks=mock_map, parameters=params(), base_dir=hb)
                else:
                    t = TestChain([T], mock_tasks=mock_map, parameters=params(), base_dir=hb)['tested']
                got = t.value
            except Exception as e:  # noqa
                out.append((f'{helper} fails where the real chain computes', f'mocks keyed {keying}: {type(e).__name__}: {str(e)[:200]}'))
                continue
            want = real_val if real_val is not None else exp_args
            if got != want or _types(got) != _types(want):
                out.append((f'{helper} value differs from the real chain', f'mocks keyed {keying}: helper {got!r}, real chain {want!r}'))
            if ns['RUNS'] != ['tested']:
                out.append((f'{helper}: mocked task was run', f'runs {ns["RUNS"]}'))
            stray = [p.name for p in hb.iterdir() if p.name != 'tested'] if hb.exists() else []
            if stray:
                out.append((f'{helper}: something persisted for a mocked task', f'{stray}'))
            # mocks return the supplied value
            if helper == 'TestChain':
                ch = TestChain([T], mock_tasks=mock_map, parameters=params(), base_dir=hb)
                for i, m in enumerate(mocks):
                    try:
                        mv = ch[f'up{i}'].value
                    except Exception as e:  # noqa
                        out.append(('mocked task does not return the supplied value', f'{m!r}: {type(e).__name__}: {e}'))
                        continue
                    if mv != m or type(mv) is not type(m):
                        out.append(('mocked task does not return the supplied value', f'{mv!r} vs {m!r}'))
    # ---- an upstream task given BOTH as a real task and as a mock is mocked: supplied value, never run
    if mocks and all(type(m) in TYPE_ANN for m in mocks):
        ns['RUNS'].clear()
        hb = Path(base) / 'both'
        pr = params()
        pr.update({f'c{i}': 'real upstream would return this' for i in range(len(mocks))})
        try:
            ch = TestChain([ns[f'Up{i}'] for i in range(len(mocks))] + [T], mock_tasks={ns[f'Up{i}']: copy.deepcopy(m) for i, m in enumerate(mocks)}, parameters=pr, base_dir=hb)
            got = ch['tested'].value
            if got != exp_args or any(r.startswith('up') for r in ns['RUNS']):
                out.append(('a task listed as real AND mocked is not mocked', f'value {got!r} (expected {exp_args!r}), runs {ns["RUNS"]}'))
        except Exception as e:  # noqa
            out.append(('TestChain fails when a task is listed as real and mocked', f'{type(e).__name__}: {str(e)[:200]}'))
    # ---- a parameter object supplied as an instance is THE object the task works with (state changed after construction is seen)
    if any(how == 'obj' for how, v in pvals):
        for helper in ('create_test_task', 'TestChain', 'real'):
            pr = params()
            try:
                if helper == 'real':
                    data = {'tasks': [ns[f'Up{i}'] for i in range(len(mocks))] + [T]}
                    data.update({f'c{i}': copy.deepcopy(m) if type(m) in TYPE_ANN else 0 for i, m in enumerate(mocks)})
                    data.update(pr)
                    if not all(type(m) in TYPE_ANN for m in mocks):
                        continue
                    t = Config(Path(base) / 'real_mut', name='real', data=data).chain()['tested']
                else:
                    mm = {ns[f'Up{i}'].slugname: copy.deepcopy(m) for i, m in enumerate(mocks)}
                    t = create_test_task(T, input_tasks=mm, parameters=pr, base_dir=Path(base) / f'{helper}_mut') if helper == 'create_test_task' else \
                        TestChain([T], mock_tasks=mm, parameters=pr, base_dir=Path(base) / f'{helper}_mut')['tested']
                for k, v in pr.items():
                    if isinstance(v, ns['Obj']):
                        v.x = 'changed after construction'
                got = t.value
                want = {k: (['Obj', 'changed after construction'] if isinstance(v, list) and v and v[0] == 'Obj' else v) for k, v in exp_args.items()}
                if got != want:
                    out.append((f'{helper}: the task does not work with the supplied parameter object itself', f'object changed after construction: value {got!r}, expected {want!r}'))
            except Exception as e:  # noqa
                out.append((f'{helper} fails with a parameter object', f'{type(e).__name__}: {str(e)[:200]}'))
    # ---- missing input / missing required parameter are reported at construction
    if mocks:
        partial = {ns[f'Up{i}'].slugname: m for i, m in enumerate(mocks)}
        partial.pop(ns['Up0'].slugname)
        try:
            create_test_task(T, input_tasks=partial, parameters=params(), base_dir=Path(base) / 'missing_in')
            out.append(('missing input not reported by create_test_task', f'mocks {list(partial)}'))
        except Exception:  # noqa
            pass
    req = [j for j, (how, v) in enumerate(pvals) if shape['params'][j] == 'required']
    if req:
        p = params()
        p.pop(f'p{req[0]}')
        try:
            TestChain([T], mock_tasks={ns[f'Up{i}'].slugname: m for i, m in enumerate(mocks)}, parameters=p, base_dir=Path(base) / 'missing_p')
            out.append(('missing required parameter not reported by TestChain', f'without p{req[0]}'))
        except Exception:  # noqa
            pass
    return out


def default_dir_scenario():
    """base_dir=None: results of real tasks stay usable for as long as the TASKS are used, not only while the TestChain object is referenced"""
    import gc

    from taskchain import Config, Task
    from taskchain.data import DirData
    from taskchain.utils.testing import TestChain

    class Shards(Task):
        def run(self) -> DirData:
            d = self.get_data_object()
            for i in range(3):
                (d.dir / f'{i}.txt').write_text(str(i + 1))
            return d

    class Total(Task):
        class Meta:
            input_tasks = [Shards]

        def run(self, shards) -> int:
            return 100 + sum(int(p.read_text()) for p in sorted(shards.glob('*.txt')))

    def tasks_only():
        ch = TestChain([Shards, Total])
        _ = ch['shards'].value          # computed while the chain object is alive
        return ch['shards'], ch['total']
    out = []
    try:
        sh, tot = tasks_only()
        gc.collect()
        got = tot.value
        base = scratch.fresh('c19d')
        real = Config(Path(base), name='r', data={'tasks': [Shards, Total]}).chain()['total'].value
        scratch.drop(base)
        import shutil
        shutil.rmtree(str(sh.get_config().base_dir), ignore_errors=True)   # the helper's default directory is never removed by the library
        if got != real:
            out.append(('TestChain (default directory): value differs from the real chain once the chain object is gone', f'helper {got}, real chain {real}'))
    except Exception as e:  # noqa
        out.append(('TestChain (default directory) fails once the chain object is gone', f'{type(e).__name__}: {str(e)[:200]}'))
    out += several_helpers_scenario() + callable_mock_scenario() + renamed_and_mutable_defaults_scenario() + force_and_homonym_scenario() + forgotten_mock_homonym_scenario() + shared_base_dir_scenario()
    return out


def shared_base_dir_scenario():
    """several helpers given the SAME base_dir, with different mock values / parameters: each yields what the real chain yields for its own values"""
    from taskchain import Parameter, Task
    from taskchain.utils.testing import TestChain, create_test_task

    class A(Task):
        def run(self) -> int:
            return 0

    class D(Task):
        class Meta:
            input_tasks = [A]
            parameters = [Parameter('p', default=0)]

        def run(self, a, p) -> int:
            return a + p

    out = []
    base = scratch.fresh('c19s')
    try:
        got = []
        for mocks, params, want in (({A: 1}, {}, 1), ({A: 5}, {}, 5), ({A: 5}, {'p': 100}, 105)):
            try:
                got.append((create_test_task(D, input_tasks=mocks, parameters=params, base_dir=Path(base) / 'one').value, TestChain([D], mock_tasks=mocks, parameters=params, base_dir=Path(base) / 'two')['d'].value, want))
            except Exception as e:  # noqa
                got.append((f'{type(e).__name__}: {e}', None, want))
        if any(g[0] != g[2] or g[1] != g[2] for g in got):
            out.append(('shared-base-dir: a helper returns the result of an earlier helper built on the same base_dir', f'(create_test_task, TestChain, real chain) for a=1; a=5; a=5,p=100: {got}'))
    finally:
        scratch.drop(base)
    return out


def forgotten_mock_homonym_scenario():
    """the task under test names an input BY CLASS (an ungrouped task `stats`); the caller forgets to mock it but mocks a grouped task of the same
    plain name (`raw:stats`): the missing input is reported at construction - the helper is never built on the other task's value. With an
    optional input (InputTaskParameter with a default) the helper and the real chain both take the default."""
    from taskchain import Config, Task
    from taskchain.parameter import InputTaskParameter
    from taskchain.utils.testing import TestChain, create_test_task

    class Stats(Task):
        def run(self) -> int:
            return 1

    class RawStats(Task):
        class Meta:
            name = 'stats'
            task_group = 'raw'

        def run(self) -> int:
            return 500

    class Report(Task):
        class Meta:
            input_tasks = [RawStats, Stats]

        def run(self) -> int:
            return self.input_tasks['raw:stats'].value + self.input_tasks[1].value

    class OptReport(Task):
        class Meta:
            input_tasks = [RawStats, InputTaskParameter(Stats, default=7)]

        def run(self) -> int:
            s = self.input_tasks[1]
            return self.input_tasks['raw:stats'].value + (s.value if isinstance(s, Task) else s)

    out = []
    for how in ('create_test_task', 'TestChain'):
        try:
            if how == 'create_test_task':
                t = create_test_task(Report, input_tasks={RawStats: 5})
            else:
                t = TestChain([Report], mock_tasks={RawStats: 5})['report']
        except Exception:  # noqa
            continue
        try:
            v = t.value
        except Exception as e:  # noqa
            v = f'{type(e).__name__}: {e}'
        out.append(('a forgotten mock is not reported when the helper is constructed', f'{how}: Report needs `raw:stats` and (by class) `stats`, only raw:stats is mocked: helper built, value {v!r}'))
    # the optional variant: real chain without Stats, helper without a mock for it
    base = scratch.fresh('c19h')
    try:
        try:
            want = Config(Path(base) / 'real', name='r', data={'tasks': [RawStats, OptReport]}).chain()['opt_report'].value
        except Exception as e:  # noqa
            want = f'{type(e).__name__}: {e}'
        try:
            got = create_test_task(OptReport, input_tasks={RawStats: 500}).value
        except Exception as e:  # noqa
            got = f'{type(e).__name__}: {e}'
        # (whether the default is taken is C08's business; here: the helper does what the real chain does)
        if (want == 507) != (got == 507) or (isinstance(want, int) and want != got):
            out.append(('optional input by class absent, a grouped task has its plain name: helper differs from the real chain', f'real chain {want!r}, helper {got!r}'))
    finally:
        scratch.drop(base)
    return out


def force_and_homonym_scenario():
    """(a) forcing through a TestChain whose upstream is mocked - by name, with recompute - behaves as in the real chain (the mock stays what it is,
    the real tasks downstream run again); (b) the task under test lives in a group and a mocked input has its plain name"""
    from taskchain import Config, Parameter, Task
    from taskchain.utils.testing import TestChain, create_test_task

    runs = []

    class Up(Task):
        def run(self) -> int:
            runs.append('up')
            return 3

    class Mid(Task):
        class Meta:
            input_tasks = [Up]

        def run(self, up) -> int:
            runs.append('mid')
            return up * 2

    class Top(Task):
        class Meta:
            input_tasks = [Mid]
            parameters = [Parameter('k', default=1)]

        def run(self, mid, k) -> int:
            runs.append('top')
            return mid + k

    class Users(Task):
        def run(self) -> list:
            return ['u1', 'u2']

    class UserFeatures(Task):
        class Meta:
            name = 'users'
            task_group = 'features'
            input_tasks = ['users']

        def run(self, users) -> int:
            return len(users)

    out = []
    try:
        base = scratch.fresh('c19f')
        real = Config(Path(base) / 'real', name='r', data={'tasks': [Up, Mid, Top]}).chain()
        want0 = real['top'].value
        del runs[:]
        real.force('up', recompute=True)
        want_runs = sorted(runs)
        want1 = real['top'].value
        tc = TestChain([Mid, Top], mock_tasks={'up': 3})
        got0 = tc['top'].value
        del runs[:]
        err = None
        try:
            tc.force('up', recompute=True)
        except Exception as e:  # noqa
            err = f'{type(e).__name__}: {e}'
        got_runs = sorted(runs)
        got1 = tc['top'].value if err is None else None
        if err is not None or (got0, got1) != (want0, want1) or got_runs != [r for r in want_runs if r != 'up']:
            out.append(('forcing a mocked upstream with recompute does not behave as in the real chain', f'real chain: values {want0}/{want1}, recomputed {want_runs}; helper: values {got0}/{got1}, recomputed {got_runs}, error {err}'))
        # (b)
        realb = Config(Path(base) / 'realb', name='r', data={'tasks': [Users, UserFeatures]}).chain()
        wantb = realb['features:users'].value
        gotb = create_test_task(UserFeatures, input_tasks={'users': ['u1', 'u2']}).value
        gotc = create_test_task(UserFeatures, input_tasks={Users: ['u1', 'u2']}).value
        if gotb != wantb or gotc != wantb:
            out.append(('create_test_task hands out the mocked input instead of the grouped task of the same plain name', f'real chain {wantb}, helper (mock by name) {gotb!r}, (mock by class) {gotc!r}'))
        scratch.drop(base)
    except Exception as e:  # noqa
        out.append(('forcing / homonym scenario fails', f'{type(e).__name__}: {str(e)[:200]}'))
    return out


def renamed_and_mutable_defaults_scenario():
    """(a) a parameter with `name_in_config` whose task-side NAME is the config key of another task's parameter; (b) a mutable default that run()
    extends in place, computed several times in one process: the helper yields what a fresh real chain yields"""
    from taskchain import Config, Parameter, Task
    from taskchain.utils.testing import TestChain, create_test_task

    class Thumb(Task):
        class Meta:
            parameters = [Parameter('size', name_in_config='thumbnail_size', default=64)]

        def run(self, size) -> int:
            return size

    class Crop(Task):
        class Meta:
            parameters = [Parameter('size', default=5)]
            input_tasks = [Thumb]

        def run(self, size, thumb) -> list:
            return [size, thumb]

    class Required(Task):
        class Meta:
            parameters = [Parameter('size', name_in_config='required_size')]

        def run(self, size) -> int:
            return size

    class Vocab(Task):
        class Meta:
            parameters = [Parameter('special', default=['<pad>', '<unk>']), Parameter('extra', default={'k': [1]})]

        def run(self, special, extra) -> list:
            vocabulary = special
            vocabulary += ['a', 'b']
            extra['k'].append(2)
            return [vocabulary, extra]

    out = []
    try:
        base = scratch.fresh('c19r')
        real = Config(Path(base) / 'real', name='r', data={'tasks': [Thumb, Crop], 'size': 10}).chain()
        want = [real['thumb'].value, real['crop'].value]
        tc = TestChain([Thumb, Crop], parameters={'size': 10})
        got = [tc['thumb'].value, tc['crop'].value]
        single = create_test_task(Thumb, parameters={'size': 10}).value
        if got != want or single != want[0]:
            out.append(('helper takes a parameter value from a config key that is not the parameter\'s name in the config', f'TestChain {got}, create_test_task {single}, real chain {want}'))
        try:
            Config(Path(base) / 'real2', name='r', data={'tasks': [Required], 'size': 1}).chain()
            real_err = None
        except Exception as e:  # noqa
            real_err = type(e).__name__
        try:
            v = create_test_task(Required, parameters={'size': 1}).value
            helper_err = None
        except Exception as e:  # noqa
            helper_err = type(e).__name__
        if (real_err is None) != (helper_err is None):
            out.append(('a missing required parameter is reported by the real chain but not by the helper', f'real chain: {real_err}, helper: {helper_err}'))
        # (b)
        want_v = [['<pad>', '<unk>', 'a', 'b'], {'k': [1, 2]}]
        vals = []
        vals.append(Config(Path(base) / 'v0', name='r', data={'tasks': [Vocab]}).chain()['vocab'].value)
        vals.append(create_test_task(Vocab).value)
        vals.append(TestChain([Vocab])['vocab'].value)
        vals.append(Config(Path(base) / 'v1', name='r', data={'tasks': [Vocab]}).chain()['vocab'].value)
        if any(v != want_v for v in vals):
            out.append(('a default that run() changed in place reaches later task objects of the class', f'real, create_test_task, TestChain, real: {vals}'))
        scratch.drop(base)
    except Exception as e:  # noqa
        out.append(('renamed parameters / mutable defaults scenario fails', f'{type(e).__name__}: {str(e)[:200]}'))
    return out


def several_helpers_scenario():
    """several helpers for the same task (different parameters / mock values, default directory) are constructed FIRST and evaluated afterwards,
    in every order: each yields what the real chain yields for its own parameters and inputs"""
    import itertools
    import shutil

    from taskchain import Config, Parameter, Task
    from taskchain.utils.testing import TestChain, create_test_task

    class Src(Task):
        class Meta:
            parameters = [Parameter('seed', default=1)]

        def run(self, seed) -> int:
            return seed * 7

    class Scaled(Task):
        class Meta:
            input_tasks = [Src]
            parameters = [Parameter('factor', default=1)]

        def run(self, src, factor) -> int:
            return src * factor + 1

    out = []
    dirs = []
    try:
        for order in itertools.permutations(range(3)):
            factors = [2, 3, 5]
            helpers = [create_test_task(Scaled, input_tasks={'src': 10}, parameters={'factor': f}) for f in factors]
            dirs += [h.get_config().base_dir for h in helpers]
            got = {}
            for i in order:
                got[i] = helpers[i].value
            exp = {i: 10 * factors[i] + 1 for i in range(3)}
            if got != exp:
                out.append(('create_test_task (default directory): helpers constructed together return each other\'s results', f'factors {factors} evaluated in order {order}: {got}, expected {exp}'))
                break
        for order in ((0, 1), (1, 0)):
            chains = [TestChain([Src, Scaled], parameters={'seed': s_, 'factor': 4}) for s_ in (1, 2)]
            dirs += [c['scaled'].get_config().base_dir for c in chains]
            got = {}
            for i in order:
                got[i] = chains[i]['scaled'].value
            base = scratch.fresh('c19m')
            exp = {i: Config(Path(base) / str(i), name='r', data={'tasks': [Src, Scaled], 'seed': s_, 'factor': 4}).chain()['scaled'].value for i, s_ in enumerate((1, 2))}
            scratch.drop(base)
            if got != exp:
                out.append(('TestChain (default directory): chains constructed together return each other\'s results', f'seeds (1, 2) evaluated in order {order}: {got}, real chains {exp}'))
                break
    except Exception as e:  # noqa
        out.append(('helpers constructed together cannot be evaluated', f'{type(e).__name__}: {str(e)[:200]}'))
    finally:
        for d_ in dirs:
            shutil.rmtree(str(d_), ignore_errors=True)
    return out


def callable_mock_scenario():
    """a mocked upstream value that is itself callable (a function, a class, what a lazily generated upstream task yields): the tested task
    receives exactly the supplied object, as run argument and through the registry, and nothing calls it"""
    from typing import Any

    from taskchain import Task
    from taskchain.utils.testing import TestChain, create_test_task

    called = []

    def fn(*a):
        called.append(a)
        return iter([1, 2, 3])

    class Marker:
        def __init__(self, *a):
            called.append(('Marker', a))

    from taskchain import InMemoryData

    class Consumer(Task):
        class Meta:
            input_tasks = ['up']
            data_class = InMemoryData

        def run(self, up) -> list:
            return [up, self.input_tasks['up'].value]

    out = []
    for label, val in (('function', fn), ('class', Marker), ('builtin class', dict), ('lambda', lambda: 5)):
        del called[:]
        try:
            for how in ('create_test_task', 'TestChain'):
                if how == 'create_test_task':
                    t = create_test_task(Consumer, input_tasks={'up': val})
                else:
                    t = TestChain([Consumer], mock_tasks={'up': val})['consumer']
                got = t.value
                if got[0] is not val or got[1] is not val or called:
                    out.append(('mock value that is callable is not handed over as supplied', f'{how}, {label}: run received {got[0]!r}, registry gives {got[1]!r}, calls of the supplied object: {called}'))
                    break
        except Exception as e:  # noqa
            out.append(('mock value that is callable is not handed over as supplied', f'{label}: {type(e).__name__}: {str(e)[:200]}'))
    return out


def _types(v):
    if isinstance(v, dict):
        return {k: _types(x) for k, x in v.items()}
    if isinstance(v, list):
        return [_types(x) for x in v]
    return type(v).__name__


def _job(items):
    import tcv

    tcv.quiet_library()
    res = Result()
    for shape in items:
        for mocks, pvals in assignments(shape, shape.get('_tier', 'quick')):
            base = scratch.fresh('c19')
            try:
                res.add('evaluations')
                res.add('transitions', 5)
                if mocks or pvals:
                    res.add('distinct_nontrivial')
                bad = check(shape, mocks, pvals, base)
                for kind, msg in bad:
                    if '(harness)' in kind:
                        res.harness_errors.append(f'{shape}: {kind}: {msg}')
                    else:
                        res.violations.append(Violation(kind, f'task shape {shape}, mocks {mocks}, parameters {pvals}: {msg}', {'shape': shape, 'mocks': mocks, 'pvals': [list(p) for p in pvals]}))
            finally:
                scratch.drop(base)
    return res


def run(tier, seed):
    sh = [dict(s, _tier=tier) for s in shapes(tier)]
    k = seed % len(sh)
    sh = sh[k:] + sh[:k]
    n = 48
    res = Result()
    for r in pmap(_job, [sh[i::n] for i in range(n)]):
        res.merge(r)
    import tcv
    tcv.quiet_library()
    res.add('evaluations')
    for kind, msg in default_dir_scenario():
        res.violations.append(Violation(kind, msg, {'default_dir': True}))
    res.coverage['task_shapes'] = len(sh)
    res.coverage['states'] = res.coverage['evaluations']
    res.coverage['traces_validated_against_impl'] = res.coverage['evaluations']
    res.coverage['exhaustive'] = True
    res.coverage['rule'] = ('task shapes: 0-2 inputs (by class / by name) x 0-2 parameters (required, defaulted, parameter object, chain-aware parameter object) x run by arguments / by registry; '
                            'x mock values {0, "", [1], {"a": None}, None, "v"} per input x parameter given / omitted; each through create_test_task and TestChain (mocks keyed by class or by '
                            'name) and through a generated real chain with constant upstream tasks; distinct_nontrivial = cases with at least one mock or parameter')
    res.sample({'shape': sh[-1], 'assignments': len(assignments(sh[-1], tier))})
    res.assumptions += ['a mock value None has no real-chain counterpart (a JSON task cannot return None): compared with the directly computed expectation']
    return res


def replay(case):
    import tcv

    tcv.quiet_library()
    if case.get('default_dir'):
        return [Violation(k, m, case) for k, m in default_dir_scenario()]
    base = scratch.fresh('c19r')
    try:
        return [Violation(k, m, case) for k, m in check(case['shape'], case['mocks'], [tuple(p) for p in case['pvals']], base) if '(harness)' not in k]
    finally:
        scratch.drop(base)
