"""C12 - the storage scheme is stable (differential against a frozen reference of release 1.4.0).

X: every task of every world of a bounded family (groups none/single/multi-level/module-derived, namespaces, all data
classes, parameter values of the supported domain, both modes): task.data_path - and after a run the run-info/log paths
and the directory listing - equal tcv/refmodel's frozen 1.4.0 scheme. The reference itself is validated on every run against
literal golden vectors produced from the pinned commit (/verif/golden/paths_1_4_0.json), so editing the reference cannot
make the check pass.
"""
import json
import os

from tcv import VERIF_DIR, enumvals, families, refmodel, scratch, worlds
from tcv.core import HarnessError, Result, Violation, digest
from tcv.pool import pmap

GOLDEN = os.path.join(VERIF_DIR, 'golden', 'paths_1_4_0.json')
P, bc, bn = families.P, families.by_class, families.by_name


def groups_world():
    tasks = {
        'Plain': {'params': [P('p', default=0)], 'inputs': [], 'data': 'json'},
        'Grp': {'group': 'g', 'params': [], 'inputs': [bc('Plain')], 'data': 'numpy'},
        'Deep': {'group': 'g:h', 'name': 'dd', 'params': [P('q', default='s')], 'inputs': [bc('Grp'), bc('Plain')], 'data': 'dir'},
        'Modt': {'module_group': 'module', 'params': [], 'inputs': [bc('Deep')], 'data': 'pandas'},
        'Dbl': {'module_group': 'double', 'params': [], 'inputs': [bc('Modt')], 'data': 'generator'},
        'Dblg': {'module_group': 'double', 'group': 'x:y:z', 'params': [], 'inputs': [bc('Dbl')], 'data': 'list_of_numpy'},
        'End': {'name': 'the_end', 'params': [], 'inputs': [bn('x:y:z:dblg'), bn('dd')], 'data': 'continues'},
        # explicit names are used verbatim (also when they end in `_task`); derived names drop the suffix
        'Exp': {'name': 'export_task', 'group': 'reports:monthly', 'params': [], 'inputs': [bc('Plain')], 'data': 'json'},
        'SomeDerivedTask': {'name': None, 'params': [], 'inputs': [bn('reports:monthly:export_task')], 'data': 'json'},
        'Cons': {'name': 'cons', 'params': [], 'inputs': [bn('bo::plain'), bn('bo::g:grp')], 'data': 'json'},
    }
    return {
        'name': 'groups',
        'tasks': tasks,
        'configs': {
            'root': {'medium': 'json', 'tasks': [t for t in tasks if t not in ('Cons',)], 'values': {}},
            'outer': {'medium': 'yaml', 'tasks': [], 'values': {}, 'uses': [{'config': 'root', 'as': 'o'}]},
            'outer2': {'medium': 'yaml', 'tasks': [], 'values': {}, 'uses': [{'config': 'outer', 'as': 'p'}]},
            # a consumer inside namespace `o` (and `x`) reading a task of the sub-namespace `bo` (`x`): own-namespace text recurs in the input name
            'mid_o': {'medium': 'json', 'tasks': ['Cons'], 'values': {}, 'uses': [{'config': 'root', 'as': 'bo'}]},
            'top_o': {'medium': 'json', 'tasks': [], 'values': {}, 'uses': [{'config': 'mid_o', 'as': 'o'}]},
        },
        'root': 'root',
        'variants': {'v0': [], 'v1': [[['configs', 'root', 'values', 'p'], 1]], 'vo': [[['root'], 'outer']], 'vp': [[['root'], 'outer2']],
                     'vq': [[['configs', 'root', 'values', 'q'], 't']], 'vbo': [[['root'], 'top_o']]},
    }


def values_for(tier):
    A = enumvals.ATOMS_KEYS
    vals = enumvals.json_values(A, 1, 2)
    small = [0, 'a', "a', 'b", None, 1.5]
    vals += [v for v in enumvals.json_values(small, 2, 2 if tier == 'thorough' else 1) if v not in small]
    if tier == 'quick':
        vals = vals[:700] + vals[-300:]
    # parameter objects and special strings (deterministic 1.4.0 text only: no set/dict arguments, <=1 kwarg for plain classes)
    objs = [{'__obj__': 'Auto1', 'kwargs': {'a': 1}}, {'__obj__': 'Auto1', 'args': [1, 2]}, {'__obj__': 'Auto1', 'kwargs': {'a': 'x', 'verbose': True}},
            {'__obj__': 'Auto1', 'kwargs': {'a': [1, 'y']}}, {'__obj__': 'Auto2', 'kwargs': {'a': 1}}, {'__obj__': 'Auto2', 'kwargs': {'a': 1, 'c': 5}},
            {'__obj__': 'Auto2', 'kwargs': {'a': 1, 'c': 6}}, {'__obj__': 'Hand1', 'args': ['h']}, {'__obj__': 'Plain1', 'args': [1, 'b']},
            {'__obj__': 'Plain1', 'kwargs': {'a': [1, {'k': 'v'}]}}, [{'__obj__': 'Hand1', 'args': [1]}, 2],
            {'__obj__': 'AutoBoth', 'kwargs': {'cols': ['z', 'a', 'm']}}, {'__obj__': 'AutoBoth', 'args': [[3, 1, 2]]},
            {'__obj__': 'AutoTuple', 'kwargs': {'a': 1}}, {'__obj__': 'AutoTuple', 'kwargs': {'a': 1, 'size': [224, 224]}}, [{'__obj__': 'AutoTuple', 'args': [2]}],
            {'__obj__': 'AutoRaw', 'kwargs': {'path': '{DIR}/vocab'}}]
    return vals, objs


def pvals_world(values, objs):
    tasks = {
        'V': {'group': 'vals', 'params': [P('v'), P('ign', default=0, ignore=True), P('dflt', default=3, dpdv=True), P('pth', default=None, dtype='Path'),
                                          P('nic', nic='other_name', default='n'),
                                          # names that are prefixes of one another, next character below `=`: order is by NAME
                                          P('unit', default='m/s', dpdv=True), P('one', default=1, dpdv=True), P('dim', default=8), P('dim2', default=16), P('x-y', default=1), P('x', default=2), P('x.z', default=3)], 'inputs': [], 'data': 'json'},
        'W': {'params': [P('w', default=1)], 'inputs': [bc('V')], 'data': 'json'},
    }
    variants = {}
    for i, v in enumerate(values):
        variants[f'j{digest(v)[:10]}'] = [[['configs', 'root', 'values', 'v'], v]]  # named by content: tiers enumerate different sets
    for i, v in enumerate(objs):
        variants[f'o{digest(v)[:10]}'] = [[['configs', 'root', 'values', 'v'], v]]
    variants['ph'] = [[['configs', 'root', 'values', 'v'], '{DIR}/x/{UNDEF}'], [['global_vars'], {'DIR': '/data'}]]
    variants['ph2'] = [[['configs', 'root', 'values', 'v'], ['{DIR}', {'k': 'a{DIR}b'}]], [['global_vars'], {'DIR': 'elsewhere'}]]
    # with global_vars given, every string with a {...} group is represented as Python writes it (escapes), also when nothing was replaced
    for i, txt in enumerate(["\\w{2,}", "{name}'s", "a\tb{UNDEF}", "plain's \\ no group", ["{x}\\y", {'k': "q'{UNDEF}"}]]):
        variants[f'esc{i}'] = [[['configs', 'root', 'values', 'v'], txt], [['global_vars'], {'DIR': '/d'}]]
        variants[f'esc{i}_nogv'] = [[['configs', 'root', 'values', 'v'], txt]]
    # two DIFFERENT placeholders that stand for the same text on this machine: each value keeps its own placeholder form (a representation
    # remembered per substituted text would hand the first one's to the second)
    twin_gv = [['global_vars'], {'DIR': '/d', 'DIR2': '/d'}]
    variants['twin_both'] = [[['configs', 'root', 'values', 'v'], ['{DIR}/c', '{DIR2}/c', {'k': '{DIR2}/c'}]], [['configs', 'root', 'values', 'other_name'], '{DIR2}/c'], twin_gv]
    variants['twin_first'] = [[['configs', 'root', 'values', 'v'], '{DIR}/c'], twin_gv]
    variants['twin_second'] = [[['configs', 'root', 'values', 'v'], '{DIR2}/c'], twin_gv]
    variants['twin_literal'] = [[['configs', 'root', 'values', 'v'], '/d/c'], twin_gv]
    variants['path'] = [[['configs', 'root', 'values', 'v'], 0], [['configs', 'root', 'values', 'pth'], '/some/path']]
    variants['pathph'] = [[['configs', 'root', 'values', 'v'], 0], [['configs', 'root', 'values', 'pth'], '{DIR}/p'], [['global_vars'], {'DIR': '/d'}]]
    variants['ign'] = [[['configs', 'root', 'values', 'v'], 0], [['configs', 'root', 'values', 'ign'], 5]]
    variants['dflt_same'] = [[['configs', 'root', 'values', 'v'], 0], [['configs', 'root', 'values', 'dflt'], 3]]
    variants['dflt_other'] = [[['configs', 'root', 'values', 'v'], 0], [['configs', 'root', 'values', 'dflt'], 4]]
    # equal to the default but written in another form (1.4.0 compares with ==): not part of the key either
    variants['dflt_float'] = [[['configs', 'root', 'values', 'v'], 0], [['configs', 'root', 'values', 'dflt'], 3.0]]
    variants['unit_same'] = [[['configs', 'root', 'values', 'v'], 0], [['configs', 'root', 'values', 'unit'], 'm/s']]
    variants['unit_placeholder'] = [[['configs', 'root', 'values', 'v'], 0], [['configs', 'root', 'values', 'unit'], '{LENGTH}/s'], [['global_vars'], {'LENGTH': 'm'}]]
    variants['unit_placeholder_other'] = [[['configs', 'root', 'values', 'v'], 0], [['configs', 'root', 'values', 'unit'], '{LENGTH}/s'], [['global_vars'], {'LENGTH': 'km'}]]
    variants['flag_true_for_1'] = [[['configs', 'root', 'values', 'v'], 0], [['configs', 'root', 'values', 'one'], True]]
    variants['nic'] = [[['configs', 'root', 'values', 'v'], 0], [['configs', 'root', 'values', 'other_name'], 'm']]
    variants['nic_ignored_key'] = [[['configs', 'root', 'values', 'v'], 0], [['configs', 'root', 'values', 'nic'], 'zzz']]
    variants['ctx'] = [[['configs', 'root', 'values', 'v'], 0], [['context'], {'kind': 'dict', 'data': {'v': [1, 'c']}}]]
    return {'name': 'pvals', 'tasks': tasks, 'configs': {'root': {'medium': 'json', 'tasks': ['V', 'W'], 'values': {}}}, 'root': 'root', 'variants': variants}


def family(tier):
    out = []
    for name, f in families.ALL.items():
        out.append(f())
    out.append(groups_world())
    vals, objs = values_for(tier)
    out.append(pvals_world(vals, objs))
    return out


def _impl_paths(desc, vids, run_some=False):
    """real library: {vid: {fullname: relpath}} (+ name mode, + on-disk listing after running) for the given variants"""
    root = scratch.fresh('c12')
    w = worlds.World(desc, root, modname_unique=False)
    out = {}
    try:
        for vid in vids:
            base = os.path.join(root, 'data')
            try:
                ch = w.chain(vid, base_dir=base)
            except Exception as e:  # noqa
                out[vid] = {'param': {'__error__': f'{type(e).__name__}: {str(e)[:200]}'}}
                continue
            rec = {}
            for fn, t in ch.tasks.items():
                p = t.data_path
                rec[fn] = None if p is None else os.path.relpath(str(p), base)
            out[vid] = {'param': rec}
            if desc['name'] != 'pvals':
                # name mode is inspected on its own directory (merely asking a directory-type task for its path creates `<name>_tmp`)
                base_n = os.path.join(root, 'data_name_mode')
                chn = w.chain(vid, base_dir=base_n, parameter_mode=False) if not _has_context(w.variant(vid)) else None
                if chn is not None:
                    out[vid]['name'] = {fn: (None if t.data_path is None else os.path.relpath(str(t.data_path), base_n)) for fn, t in chn.tasks.items()}
            if run_some and vid in run_some:
                # fresh directory: inspecting (data_path) other variants leaves `<key>_tmp` work directories behind
                base_r = os.path.join(root, f'data_run_{vid}')
                chr_ = w.chain(vid, base_dir=base_r)
                for fn, t in chr_.tasks.items():
                    _ = t.value
                listing = []
                for r, ds, fs in os.walk(base_r):
                    for f in fs:
                        listing.append(os.path.relpath(os.path.join(r, f), base_r))
                    for d in ds:
                        listing.append(os.path.relpath(os.path.join(r, d), base_r) + '/')
                import re
                out[vid]['listing'] = sorted(re.sub(r'attempt_\d+$', 'attempt_0', x) for x in listing)  # generated marker file, numbered per run
    finally:
        w.dispose()
        scratch.drop(root)
    return out, w.modname


def _has_context(d):
    return d.get('context') is not None


def _ref_paths(desc, vids, modname, run_some=False):
    out = {}
    for vid in vids:
        d = worlds.apply_variant(desc, vid)
        m = refmodel.Model(d, modname)
        if m.error:
            raise HarnessError(f'C12 family member {desc["name"]}/{vid} is not a valid configuration: {m.error}')
        out[vid] = {'param': {fn: _fix(m.relpath(fn), modname) for fn in m.tasks}}
        if desc['name'] != 'pvals' and not _has_context(d):
            cname = _config_name(d, m)
            out[vid]['name'] = {fn: _fix(m.relpath(fn, name_mode_config=cname[m.tasks[fn].mount[1]]), modname) for fn in m.tasks}
        if run_some and vid in run_some:
            listing = set()
            for fn in m.tasks:
                rp = _fix(m.relpath(fn), modname)
                ti = m.tasks[fn]
                kind = ti.decl.get('data', 'json')
                d0 = ti.local.replace(':', '/')
                stem = m.key(fn)
                parts = d0.split('/')
                for i in range(1, len(parts) + 1):
                    listing.add('/'.join(parts[:i]) + '/')
                listing.add(f'{d0}/{stem}.run_info.yaml')
                listing.add(f'{d0}/{stem}.log')
                if kind == 'inmemory':
                    continue
                if kind in ('dir', 'continues'):
                    listing |= {rp + '/', rp + '/sub/', rp + '/sub/x.txt', rp + '/term.json'}
                    if kind == 'continues':
                        listing.add(rp + '/step0')
                    else:
                        listing.add(rp + '/attempt_0')
                elif kind == 'list_of_numpy':
                    listing |= {rp + '/'} | {f'{rp}/{i}.npy' for i in range(worlds.LON_PARTS)}
                else:
                    listing.add(rp)
            out[vid]['listing'] = sorted(_fix(x, modname) for x in listing)
    return out


def _config_name(d, m):
    names = {}
    for cid, c in d['configs'].items():
        if c['medium'] == 'part':
            stem = (c.get('file') or cid).rsplit('.', 1)[0]
            names[cid] = f'{stem}#{c["part"]}'
        elif c['medium'] == 'inline':
            names[cid] = c.get('cname', cid)
        else:
            names[cid] = (c.get('file') or cid).rsplit('.', 1)[0] if c.get('file') else cid
    return names


def _fix(p, modname):
    return p


RUN_VIDS = {'groups': ['v0', 'vo'], 'types': ['v0'], 'chain3': ['v0'], 'diamond': ['v0'], 'mount2': ['v12'], 'parts': ['v0'], 'optpat': ['v0'], 'uses2': ['v0'], 'ctxmove': ['v1']}


def _shard(args):
    import tcv

    tcv.quiet_library()
    desc, vids = args
    res = Result()
    run_some = set(RUN_VIDS.get(desc['name'], [])) & set(vids)
    impl, modname = _impl_paths(desc, vids, run_some)
    ref = _ref_paths(desc, vids, modname, run_some)
    for vid in vids:
        for mode in ('param', 'name'):
            if mode not in ref[vid]:
                continue
            if '__error__' in impl[vid].get('param', {}):
                if mode == 'param':
                    res.violations.append(Violation(f'{desc["name"]}: a configuration of the 1.4.0 layout can no longer be built', f'{desc["name"]}/{vid}: {impl[vid]["param"]["__error__"]}',
                                                    {'desc': desc if desc['name'] != 'pvals' else _slim(desc, vid), 'vid': vid}))
                continue
            for fn, exp in ref[vid][mode].items():
                got = impl[vid].get(mode, {}).get(fn, '<task missing>')
                res.add('evaluations')
                res.add('transitions')
                if got != exp:
                    res.violations.append(Violation(
                        f'{desc["name"]}: {mode}-mode data path differs from the 1.4.0 scheme ({_what_differs(got, exp)})',
                        f'{desc["name"]}/{vid} task {fn}: data_path {got!r}, release-1.4.0 scheme {exp!r}',
                        {'desc': desc if desc['name'] != 'pvals' else _slim(desc, vid), 'vid': vid}))
        if 'listing' in ref[vid] and 'listing' in impl[vid]:
            res.add('evaluations')
            if impl[vid]['listing'] != ref[vid]['listing']:
                a, b = set(impl[vid]['listing']), set(ref[vid]['listing'])
                res.violations.append(Violation(
                    f'{desc["name"]}: files on disk after running differ from the 1.4.0 layout',
                    f'{desc["name"]}/{vid}: unexpected {sorted(a - b)[:6]}, missing {sorted(b - a)[:6]}',
                    {'desc': desc if desc['name'] != 'pvals' else _slim(desc, vid), 'vid': vid}))
    res.coverage['states'] = len(vids)
    return res, {vid: ref[vid] for vid in vids}, modname


def _slim(desc, vid):
    d = dict(desc)
    d['variants'] = {vid: desc['variants'][vid]}
    return d


def _what_differs(got, exp):
    if got is None or exp is None or got == '<task missing>':
        return 'presence'
    g, e = got.rsplit('/', 1), exp.rsplit('/', 1)
    if g[0] != e[0]:
        return 'directory'
    if g[1].split('.')[0] != e[1].split('.')[0]:
        return 'key'
    return 'extension'


def golden_subset(fam):
    """(world name, vid) pairs pinned by literal golden vectors"""
    out = []
    for desc in fam:
        vids = list(desc['variants'])
        if desc['name'] == 'pvals':
            j = [v for v in vids if v.startswith('j')]
            vids = j[:60] + j[60::37] + [v for v in vids if not v.startswith('j')]
        if desc['name'].startswith('mount2'):
            # the pinned commit computes n2's tasks from n1's configuration when the two differ (defect D1, repaired):
            # those paths were wrong in 1.4.0 itself and are not pinned
            vids = [v for v in vids if v in ('v11', 'vg')]
        out.append((desc['name'], vids))
    return out


def dotted_name_mode_paths():
    import tcv
    from pathlib import Path

    tcv.quiet_library()
    from taskchain import Config, Task
    from taskchain.data import DirData

    class Fj(Task):
        def run(self) -> int:
            return 1

    class Dd(Task):
        def run(self) -> DirData:
            d = self.get_data_object()
            (d.dir / 'x').write_text('x')
            return d

    out = []
    root = scratch.fresh('c12d')
    try:
        for name in ('exp.v1', 'exp.v2', 'lr_0.1'):
            ch = Config(Path(root) / 'data', name=name, data={'tasks': [Fj, Dd]}).chain(parameter_mode=False)
            for t, rel in (('fj', f'fj/{name}.json'), ('dd', f'dd/{name}')):
                _ = ch[t].value
                got = os.path.relpath(str(ch[t].data_path), os.path.join(root, 'data'))
                if got != rel or not os.path.exists(os.path.join(root, 'data', rel)):
                    out.append(('result of a config with a dotted name is not stored under its whole name', f'config {name} task {t}: {got}, expected {rel}'))
                for side in ('.run_info.yaml', '.log'):
                    if not os.path.exists(os.path.join(root, 'data', t, name + side)):
                        out.append(('run info / log of a config with a dotted name are not beside the result under its whole name', f'config {name} task {t}: {t}/{name}{side} missing'))
    except Exception as e:  # noqa
        out.append(('name mode with dotted config names fails', f'{type(e).__name__}: {e}'))
    finally:
        scratch.drop(root)
    return out[:4]


def run(tier, seed):
    fam = family(tier)
    jobs = []
    for desc in fam:
        vids = list(desc['variants'])
        n = 40
        for i in range(0, len(vids), n):
            jobs.append((desc, vids[i:i + n]))
    k = seed % len(jobs)
    jobs = jobs[k:] + jobs[:k]
    res = Result()
    refs = {}
    for (r, ref, modname), (desc, vids) in zip(pmap(_shard, jobs), jobs):
        res.merge(r)
        refs.setdefault(desc['name'], {}).update(ref)
    # the frozen reference must reproduce the golden vectors literally
    if not os.path.exists(GOLDEN):
        raise HarnessError('golden vectors missing')
    gold = json.load(open(GOLDEN))
    ng = 0
    for wname, recs in gold['paths'].items():
        desc = next(d for d in family('quick') if d['name'] == wname) if wname not in refs else None
        for vid, rec in recs.items():
            if wname in refs and vid in refs[wname]:
                mine = refs[wname][vid]
            else:
                continue
            for mode in rec:
                if mode == 'listing':
                    continue
                ng += len(rec[mode])
                if mine.get(mode) != rec[mode]:
                    bad = {k: (mine.get(mode, {}).get(k), v) for k, v in rec[mode].items() if mine.get(mode, {}).get(k) != v}
                    raise HarnessError(f'reference model drifted from golden vectors: {wname}/{vid}/{mode}: {bad}')
    if ng < 200:
        raise HarnessError(f'only {ng} golden vectors matched the family')
    # name mode, config names with dots: `<task>/<config name>.<ext>` keeps the whole name (file and directory results)
    for sig, what in dotted_name_mode_paths():
        res.violations.append(Violation(f'name mode: {sig}', what, {'kind': 'dotted-name-mode'}))
    res.add('evaluations', 6)
    # module-derived groups across two modules (a task class subclassing a task class of another module), every declaration / first-touch order
    import tcv
    from tcv import modgroups, scratch

    tcv.quiet_library()
    mroot = scratch.fresh('c12mg')
    nmg, bad = modgroups.check(mroot)
    scratch.drop(mroot)
    res.add('evaluations', nmg)
    res.add('transitions', nmg)
    res.add('states', nmg)
    for sig, what, case in bad:
        res.violations.append(Violation(f'module groups: {sig}', what, case))
    res.coverage['golden_vectors_validated'] = ng
    res.coverage['distinct_nontrivial'] = len({p for w in refs.values() for v in w.values() for p in v['param'].values() if p})
    res.coverage['traces_validated_against_impl'] = res.coverage['evaluations']
    res.coverage['exhaustive'] = True
    res.coverage['rule'] = ('every task of every variant of the shared world families + a groups world (no/single/multi-level/module/double-module groups, nested mounts) + a '
                            'parameter-value world (JSON-like values over 21 atoms closed under lists/dicts, parameter objects, Path, placeholders, ignored/default/renamed '
                            'parameters): data_path in parameter and name mode, and files on disk after running; distinct_nontrivial = distinct storage paths')
    res.sample({'world': 'pvals', 'variants': len(refs.get('pvals', {})), 'example': refs['groups']['vo']['param']})
    res.assumptions += ['the 1.4.0 scheme is the frozen re-implementation in tcv/refmodel.py, itself pinned by literal golden vectors generated from the pinned commit 96fd43d',
                        'values with nondeterministic 1.4.0 text (set / dict arguments of parameter objects, kwargs order of plain classes) are excluded here and judged in C02']
    return res


def replay(case):
    import tcv

    tcv.quiet_library()
    if case.get('kind') == 'dotted-name-mode':
        return [Violation(f'name mode: {sig}', what, case) for sig, what in dotted_name_mode_paths()]
    if case.get('kind') == 'module-groups':
        from tcv import modgroups, scratch
        n, bad = modgroups.check(scratch.fresh('c12mg'))
        return [Violation(f'module groups: {sig}', what, c) for sig, what, c in bad if c['order'] == case['order'] and c['touch'] == case['touch']]
    r, ref, modname = _shard((case['desc'], [case['vid']]))
    return r.violations


def generate_golden():
    """run with TCV_REPO pointing at a checkout of the pinned commit"""
    import tcv

    tcv.quiet_library()
    fam = family('quick')
    paths = {}
    for desc in fam:
        vids = dict(golden_subset(fam))[desc['name']]
        impl, modname = _impl_paths(desc, vids, set(RUN_VIDS.get(desc['name'], [])) & set(vids))
        paths[desc['name']] = impl
    os.makedirs(os.path.dirname(GOLDEN), exist_ok=True)
    import taskchain
    json.dump({'generated_from': os.environ.get('TCV_REPO'), 'taskchain_version': taskchain.__version__, 'paths': paths}, open(GOLDEN, 'w'), indent=0, sort_keys=True)
    print('golden vectors:', sum(len(m) for w in paths.values() for v in w.values() for k, m in v.items() if k != 'listing'))


if __name__ == '__main__':
    generate_golden()
