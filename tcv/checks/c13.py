"""C13 - a MultiChain is its chains, sharing identical tasks.

X: every list of 2 (quick) / 2-3 (thorough) configs drawn from the variant sets of several pipelines (same pipeline,
differing in a parameter at depth 0/1/2, in the context, in an unrelated parameter, or only by name): every member chain
equals the standalone chain of its config (tasks, data paths, values); for every pair of tasks of different members:
same object iff same computation (reference descriptor); registry size == number of distinct computations.
H: all histories over {value(member, task), MultiChain.force, restart} up to a depth: values are always the member's
own reference values, a value obtained through one member is in memory for the others (zero runs), forcing through the
MultiChain marks the closure in every member.
"""
import copy
import itertools

from tcv import families, refmodel, scratch, worlds
from tcv.core import Result, Violation, digest
from tcv.pool import pmap

P, bc = families.P, families.by_class


def multi_desc(base, vids):
    """one descriptor whose root is a LIST of configs: for each vid a renamed copy of every config of variant vid"""
    d = {'name': f'multi-{base["name"]}-' + '+'.join(vids), 'tasks': base['tasks'], 'configs': {}, 'root': [], 'contexts': {}, 'variants': {'m': []}}
    if base.get('global_vars'):
        d['global_vars'] = base['global_vars']
    for i, vid in enumerate(vids):
        v = worlds.apply_variant(base, vid)
        ren = {cid: f'{cid}_{i}{vid}' for cid in v['configs']}
        for cid, c in v['configs'].items():
            c = copy.deepcopy(c)
            for u in c.get('uses') or []:
                u['config'] = ren[u['config']]
            if c.get('file'):
                stem, ext = c['file'].rsplit('.', 1)
                c['file'] = f'{stem}_{i}{vid}.{ext}'
            d['configs'][ren[cid]] = c
        r = ren[v['root']]
        d['root'].append(r)
        if v.get('context') is not None:
            d['contexts'][r] = v['context']
    return d


def member_model(d, root, modname):
    dd = {k: v for k, v in d.items() if k not in ('root', 'contexts', 'context')}
    dd['root'] = root
    dd['context'] = (d.get('contexts') or {}).get(root)
    return refmodel.Model(dd, modname)


def unrelated_world():
    """two tasks that do not depend on each other: a change in one must leave the other shared"""
    return {
        'name': 'unrel',
        'tasks': {
            'A': {'params': [P('pa', default=0)], 'inputs': [], 'data': 'json'},
            'B': {'params': [P('pb', default=0)], 'inputs': [], 'data': 'inmemory'},
            'C': {'params': [P('pc', default=0)], 'inputs': [bc('A')], 'data': 'inmemory'},
            'D': {'params': [], 'inputs': [bc('B'), bc('C')], 'data': 'json'},
        },
        'configs': {'root': {'medium': 'json', 'tasks': ['A', 'B', 'C', 'D'], 'values': {}}},
        'root': 'root',
        'variants': {'v0': [], 'va': [[['configs', 'root', 'values', 'pa'], 1]], 'vb': [[['configs', 'root', 'values', 'pb'], 1]],
                     'vc': [[['configs', 'root', 'values', 'pc'], 1]], 'vsame': [[['configs', 'root', 'values', 'pa'], 0]]},
    }


def nsvar_world():
    """the same sub-pipeline mounted under DIFFERENT namespaces by different member configs (required and optional inputs inside it)"""
    bn = families.by_name
    return {
        'name': 'nsvar',
        'tasks': {
            'Cal': {'name': 'calib', 'params': [P('c', default=7)], 'inputs': [], 'data': 'json'},
            'Sc': {'name': 'score', 'params': [], 'inputs': [{'how': 'opt_name', 'ref': 'calib', 'default': 0}], 'data': 'json'},
            'Top': {'name': 'top', 'params': [], 'inputs': [bc('Sc')], 'data': 'json'},
            'Za': {'name': 'z', 'params': [], 'inputs': [bn('a::top')], 'data': 'json'},
            'Zb': {'name': 'z', 'params': [], 'inputs': [bn('b::top')], 'data': 'json'},
        },
        'configs': {'root': {'medium': 'json', 'tasks': ['Za'], 'values': {}, 'uses': [{'config': 'sub', 'as': 'a'}]},
                    'sub': {'medium': 'json', 'tasks': ['Cal', 'Sc', 'Top'], 'values': {}}},
        'root': 'root',
        'variants': {'va': [], 'vb': [[['configs', 'root', 'tasks'], ['Zb']], [['configs', 'root', 'uses'], [{'config': 'sub', 'as': 'b'}]]],
                     'va2': [[['configs', 'sub', 'values', 'c'], 8]]},
    }


BASES = {'nsvar': nsvar_world, 'chain3': families.chain3, 'diamond': families.diamond, 'uses2': families.uses2, 'mount2': families.mount2, 'ctxmove': families.ctxmove, 'unrel': unrelated_world}


def lists(tier):
    out = []
    for name, f in BASES.items():
        base = f()
        vids = list(base['variants'])
        if tier == 'quick':
            vids = vids[:4]
        for a, b in itertools.combinations_with_replacement(vids, 2):
            out.append((name, [a, b]))
        if tier != 'quick':
            for t in itertools.combinations(vids[:4], 3):
                out.append((name, list(t)))
    return out


def _construction(args):
    import tcv

    tcv.quiet_library()
    name, vids = args
    res = Result()
    base = BASES[name]()
    d = multi_desc(base, vids)
    root = scratch.fresh('c13')
    w = worlds.World(d, root)
    case = {'kind': 'construct', 'base': name, 'vids': vids}
    try:
        mc = w.chain('m', base_dir=root + '/data')
        models = [member_model(d, r, w.modname) for r in d['root']]
        chains = list(mc.chains.values()) if list(mc.chains) == [models[i].config_name(r) for i, r in enumerate(d['root'])] else [mc[models[i].config_name(r)] for i, r in enumerate(d['root'])]
        res.add('evaluations')
        res.add('transitions')
        # members == standalone chains
        for i, (ch, m, r) in enumerate(zip(chains, models, d['root'])):
            dd = {k: v for k, v in d.items() if k not in ('root',)}
            dd['root'] = r
            solo = w.chain(None, base_dir=root + '/data', d=dd)
            if set(ch.tasks) != set(solo.tasks) or set(ch.tasks) != set(m.tasks):
                res.violations.append(Violation('member chain has other tasks than the standalone chain', f'{name}{vids} member {i}: {sorted(ch.tasks)} vs {sorted(solo.tasks)}', case))
                continue
            for fn in ch.tasks:
                if str(ch.tasks[fn].data_path) != str(solo.tasks[fn].data_path):
                    res.violations.append(Violation('member task stored elsewhere than in the standalone chain', f'{name}{vids} member {i} {fn}: {ch.tasks[fn].data_path} vs {solo.tasks[fn].data_path}', case))
                pm = {k: worlds.jsonable(v) for k, v in ((p, ch.tasks[fn].params[p]) for p in ch.tasks[fn].params.keys() if p in m.tasks[fn].params)}
                if pm != {k: refmodel.term_value(v) for k, v in m.tasks[fn].params.items()}:
                    res.violations.append(Violation('member task has other parameter values than its own config gives', f'{name}{vids} member {i} {fn}: {pm}', case))
        # sharing: same object iff same computation
        seen = {}
        for i, (ch, m) in enumerate(zip(chains, models)):
            for fn, t in ch.tasks.items():
                key = (m.tasks[fn].local, digest(m.descriptor(fn)))
                seen.setdefault(key, []).append((i, fn, t))
        for key, items in seen.items():
            objs = {id(t) for i, fn, t in items}
            res.add('pairs_checked', len(items) * (len(items) - 1) // 2)
            if len(objs) > 1:
                res.violations.append(Violation('identical computations are not one shared object', f'{name}{vids}: {[(i, fn) for i, fn, t in items]} are {len(objs)} objects', case))
        owners = {}
        for key, items in seen.items():
            for i, fn, t in items:
                owners.setdefault(id(t), set()).add(key)
        for oid, keys in owners.items():
            if len(keys) > 1:
                res.violations.append(Violation('different computations share one task object', f'{name}{vids}: {sorted(keys)}', case))
        if len(mc._tasks) != len(seen):
            res.violations.append(Violation('registry size differs from the number of distinct computations', f'{name}{vids}: {len(mc._tasks)} registered, {len(seen)} distinct', case))
        res.add('distinct_nontrivial', 1 if len(seen) < sum(len(c.tasks) for c in chains) else 0)
    except Exception as e:  # noqa
        import traceback
        res.violations.append(Violation('MultiChain construction failed', f'{name}{vids}: {type(e).__name__}: {e}\n{traceback.format_exc()[-800:]}', case))
    finally:
        w.dispose()
        scratch.drop(root)
    return res


def special_scenarios():
    """(a) name mode, members are different PARTS of one multi-config file configuring one task class differently;
    (b) members reach the SAME used config file, with contexts that differ in content but share a (file) name"""
    import json as _json
    import os
    from taskchain import Config, MultiChain

    out = []
    # ---- (a)
    desc = {'name': 'mc-parts', 'tasks': {'A': {'name': 'a', 'params': [P('pa')], 'inputs': [], 'data': 'json'}, 'B': {'name': 'b', 'params': [], 'inputs': [bc('A')], 'data': 'json'}},
            'configs': {'small': {'medium': 'part', 'file': 'experiments.json', 'ext': 'json', 'part': 'small', 'tasks': ['A', 'B'], 'values': {'pa': 1}},
                        'large': {'medium': 'part', 'file': 'experiments.json', 'ext': 'json', 'part': 'large', 'tasks': ['A', 'B'], 'values': {'pa': 2}}},
            'root': 'small', 'variants': {'v': []}}
    for pm in (False, True):
        root = scratch.fresh('c13s')
        w = worlds.World(desc, root)
        try:
            cfgs = [w.make_config('v', base_dir=root + '/data', root=r) for r in ('small', 'large')]
            mc = MultiChain(cfgs, parameter_mode=pm)
            for r, pa in (('small', 1), ('large', 2)):
                ch = mc[f'experiments#{r}']
                got = ch['a'].params.pa
                if got != pa:
                    out.append(('member chain has another part\'s parameter values', f'parameter_mode={pm}: part {r}: pa={got}, declared {pa}'))
                term = w.decode(ch['b'].value, 'json')['term']
                if term['i']['A']['p']['pa'] != pa:
                    out.append(('member chain returns another part\'s value', f'parameter_mode={pm}: part {r}: {term}'))
            if mc['experiments#small']['a'] is mc['experiments#large']['a']:
                out.append(('tasks that differ in a parameter are one shared object', f'parameter_mode={pm}: parts small / large of one file'))
        except Exception as e:  # noqa
            out.append(('MultiChain over parts of one file cannot be built / evaluated', f'parameter_mode={pm}: {type(e).__name__}: {e}'))
        finally:
            w.dispose()
            scratch.drop(root)
    # ---- (b)
    desc = {'name': 'mc-sharedfile', 'tasks': {'A': {'name': 'a', 'params': [P('x', default=0)], 'inputs': [], 'data': 'json'}, 'T': {'name': 'top', 'params': [], 'inputs': [bc('A')], 'data': 'json'}},
            'configs': {'base': {'medium': 'json', 'file': 'base.json', 'tasks': ['A'], 'values': {}},
                        'exp_a': {'medium': 'json', 'file': 'exp_a.json', 'tasks': ['T'], 'values': {}, 'uses': [{'config': 'base'}]},
                        'exp_b': {'medium': 'json', 'file': 'exp_b.json', 'tasks': ['T'], 'values': {}, 'uses': [{'config': 'base'}]}},
            'root': 'exp_a', 'variants': {'v': []}}
    root = scratch.fresh('c13s')
    w = worlds.World(desc, root)
    try:
        w.write_configs(worlds.apply_variant(desc, 'v'), 'v')
        cdir = w.config_dir('v')
        ctxs = {}
        for name, x in (('exp_a', 10), ('exp_b', 20)):
            os.makedirs(os.path.join(cdir, name), exist_ok=True)
            ctxs[name] = os.path.join(cdir, name, 'context.json')   # same file NAME, different content
            with open(ctxs[name], 'w') as f:
                _json.dump({'x': x}, f)
        for order in (('exp_a', 'exp_b'), ('exp_b', 'exp_a')):
            from pathlib import Path
            cfgs = [Config(Path(root) / 'data', os.path.join(cdir, f'{n}.json'), context=ctxs[n]) for n in order]
            mc = MultiChain(cfgs)
            for n, x in (('exp_a', 10), ('exp_b', 20)):
                got = mc[n]['a'].params.x
                term = w.decode(mc[n]['top'].value, 'json')['term']
                if got != x or term['i']['A']['p']['x'] != x:
                    out.append(('member chain sees another member\'s context values in a used config', f'order {order}: {n}: x={got}, value {term}, own context says {x}'))
            if mc['exp_a']['a'] is mc['exp_b']['a']:
                out.append(('tasks that differ in a parameter are one shared object', f'order {order}: used config under two different contexts'))
    except Exception as e:  # noqa
        out.append(('MultiChain over a shared used config cannot be built / evaluated', f'{type(e).__name__}: {e}'))
    finally:
        w.dispose()
        scratch.drop(root)
    out += namespace_scenarios()
    out += overlap_scenarios()
    return out


def overlap_scenarios():
    """(i) members that give one task the same MAPPING value with its keys in another order hold one shared task; (j) a member that mounts another
    member's pipeline `as ref` AND declares same-named tasks of its own: its dependency closures, and what forcing through the MultiChain marks
    in it, are those of the member chain built alone"""
    from pathlib import Path
    from taskchain import Chain, Config, MultiChain, Parameter, Task

    out = []
    runs = []

    class Fit(Task):
        class Meta:
            parameters = [Parameter('opt')]

        def run(self, opt) -> dict:
            runs.append('fit')
            return opt

    root = scratch.fresh('c13o')
    try:
        base = Path(root) / 'data'
        a = Config(base, name='a', data={'tasks': [Fit], 'opt': {'lr': 0.1, 'sched': {'warm': 1, 'decay': [2, {'x': 1, 'y': 2}]}}})
        b = Config(base, name='b', data={'tasks': [Fit], 'opt': {'sched': {'decay': [2, {'y': 2, 'x': 1}], 'warm': 1}, 'lr': 0.1}})
        mc = MultiChain([a, b])
        mc['a']['fit'].value
        mc['b']['fit'].value
        if mc['a']['fit'] is not mc['b']['fit'] or runs != ['fit']:
            out.append(('identical tasks (a mapping value written with its keys in another order) are not shared', f'one object: {mc["a"]["fit"] is mc["b"]["fit"]}; runs {runs}'))
    except Exception as e:  # noqa
        out.append(('MultiChain over members with a mapping-valued parameter cannot be built / evaluated', f'{type(e).__name__}: {e}'))

    class Raw(Task):
        class Meta:
            parameters = [Parameter('src')]

        def run(self, src) -> int:
            return src

    class Clean(Task):
        class Meta:
            input_tasks = [Raw]

        def run(self, raw) -> int:
            return raw + 1

    class Compare(Task):
        class Meta:
            input_tasks = ['clean', 'ref::clean']

        def run(self) -> int:
            return self.input_tasks['clean'].value * 100 + self.input_tasks['ref::clean'].value

    try:
        base = Path(root) / 'data2'

        def first():
            return Config(base, name='first', data={'tasks': [Raw, Clean], 'src': 1})

        def second():
            return Config(base, name='second', data={'tasks': [Raw, Clean, Compare], 'src': 2, 'uses': [Config(base, name='first', namespace='ref', data={'tasks': [Raw, Clean], 'src': 1})]})

        def closures(ch):
            return {n: (sorted(t.fullname if False else k for k, x in ch.tasks.items() if x in ch.dependent_tasks(n)), sorted(k for k, x in ch.tasks.items() if x in ch.required_tasks(n))) for n, t in ch.tasks.items()}
        alone = closures(Chain(second()))
        for order in ('first-second', 'second-first'):
            cfgs = [first(), second()] if order == 'first-second' else [second(), first()]
            mc = MultiChain(cfgs)
            got = closures(mc['second'])
            if got != alone:
                diff = {n: (got.get(n), alone[n]) for n in alone if got.get(n) != alone[n]}
                out.append(('dependency closures of a member differ from those of the chain built alone', f'members {order}: (in the MultiChain, alone) {diff}'))
            mc['second']['compare'].value
            mc.force('raw')
            forced = sorted(n for n, t in mc['second'].tasks.items() if t.is_forced)
            if forced != ['clean', 'compare', 'raw', 'ref::clean', 'ref::raw']:
                out.append(('forcing through the MultiChain does not mark exactly the task and everything downstream of it', f'members {order}: force(raw) marks {forced} in the member that mounts the other one as `ref`'))
    except Exception as e:  # noqa
        out.append(('MultiChain whose member mounts another member and declares same-named tasks cannot be built / evaluated', f'{type(e).__name__}: {e}'))
    finally:
        scratch.drop(root)
    return out


def namespace_scenarios():
    """one pipeline file (D -> M in memory -> T) reached plainly, `as a` and `as b` by different member configs: identical
    computations are one object whatever the namespace; (c) a registry that outlives a chain, (d) forcing by name / by
    task object / by a one-shot iterable through a member and through the MultiChain, (e) members with different data
    directories"""
    import gc
    import os
    from pathlib import Path
    from taskchain import Chain, Config, MultiChain

    out = []
    desc = {'name': 'mc-ns', 'tasks': {'D': {'name': 'd', 'params': [P('pd', default=1)], 'inputs': [], 'data': 'json'},
                                         'M': {'name': 'm', 'params': [], 'inputs': [bc('D')], 'data': 'inmemory'},
                                         'T': {'name': 't', 'params': [P('pt', default=1)], 'inputs': [bc('M')], 'data': 'json'}},
            'contexts': {'mb': {'kind': 'dict', 'data': {}, 'for_namespaces': {'b': {'pt': 2}}}},   # member `mb` differs in the last task only
            'configs': {'leaf': {'medium': 'json', 'file': 'leaf.json', 'tasks': ['D', 'M', 'T'], 'values': {}},
                        'plain': {'medium': 'json', 'file': 'plain.json', 'tasks': [], 'values': {}, 'uses': [{'config': 'leaf'}]},
                        'ma': {'medium': 'json', 'file': 'ma.json', 'tasks': [], 'values': {}, 'uses': [{'config': 'leaf', 'as': 'a'}]},
                        'mb': {'medium': 'json', 'file': 'mb.json', 'tasks': [], 'values': {}, 'uses': [{'config': 'leaf', 'as': 'b'}]}},
            'root': 'plain', 'variants': {'v': []}}

    def runs(w):
        c = {}
        for r in w.rt.log:
            c[r[2]] = c.get(r[2], 0) + 1
        return c

    # ---- (c) a task registry kept by the program: chains built at different times share the in-memory task object and its value
    root = scratch.fresh('c13n')
    w = worlds.World(desc, root)
    try:
        registry = {}
        c1 = Chain(w.make_config('v', base_dir=root + '/data', root='plain'), shared_tasks=registry)
        c1['t'].value
        first = runs(w)
        c2 = Chain(w.make_config('v', base_dir=root + '/data', root='ma'), shared_tasks=registry)
        if c2['a::m'] is not c1['m']:
            out.append(('identical computations reached through a shared registry are different objects', 'plain vs `as a`'))
        c2['a::m'].value
        c1['m'].value
        c2['a::t'].value
        after = runs(w)
        if after != first:
            out.append(('a value computed through one chain is computed again for another chain sharing the task object', f'runs before the second chain {first}, after requesting through both chains {after}'))
    except Exception as e:  # noqa
        out.append(('chains over one task registry cannot be built / evaluated', f'{type(e).__name__}: {e}'))
    finally:
        w.dispose()
        scratch.drop(root)

    # ---- (d) forcing in a MultiChain whose members mount the pipeline under different namespaces
    def forced_names(ch):
        return sorted(n for n, t in ch.tasks.items() if t.is_forced)

    class _StrSub(str):
        """a name that is a str SUBCLASS (what a config value with a substituted placeholder is)"""

    for how, flags in [(h, {}) for h in ('name', 'object', 'generator', 'strsub')] + [('name', dict(recompute=True, delete_data=dd)) for dd in (False, True)]:
        for via in ('member-first', 'member-second', 'multichain'):
            root = scratch.fresh('c13n')
            w = worlds.World(desc, root)
            try:
                cfgs = [w.make_config('v', base_dir=root + '/data', root=r) for r in ('ma', 'mb')]
                mc = MultiChain(cfgs)
                ca, cb = mc['ma'], mc['mb']
                ca['a::t'].value
                cb['b::t'].value
                if ca['a::m'] is not cb['b::m'] or ca['a::t'] is cb['b::t']:
                    out.append(('sharing between members mounted under different namespaces is wrong', f'a::m is b::m: {ca["a::m"] is cb["b::m"]}; a::t is b::t: {ca["a::t"] is cb["b::t"]}'))
                target = {'member-first': ca, 'member-second': cb, 'multichain': mc}[via]
                nm = {'member-first': 'a::d', 'member-second': 'b::d', 'multichain': 'd'}[via]
                if how == 'name':
                    arg = nm
                elif how == 'strsub':
                    arg = _StrSub(nm)
                elif how == 'object':
                    if via == 'multichain':
                        continue   # a task object belongs to one member's graph
                    arg = (ca if via == 'member-first' else cb)[nm]
                else:
                    arg = (x for x in [nm])
                before = runs(w)
                target.force(arg, **flags)
                if flags:
                    # recompute=True: every forced task recomputed exactly once - the shared d and m ONCE, not once per member
                    after = runs(w)
                    delta = {k: after.get(k, 0) - before.get(k, 0) for k in after if after.get(k, 0) != before.get(k, 0)}
                    want = {'D': 1, 'M': 1, 'T': 2 if via == 'multichain' else 1}
                    if delta != want:
                        out.append(('forcing with recompute=True does not recompute every forced task exactly once',
                                    f'force({nm!r}, {flags}) via {via}: runs {delta}, expected {want}'))
                    # ... and the recomputed results are the stored ones: fresh chains load them, nothing runs
                    mc2 = MultiChain([w.make_config('v', base_dir=root + '/data', root=r) for r in ('ma', 'mb')])
                    vals = [(m, n, mc2[m][n].has_data) for m, n in (('ma', 'a::d'), ('ma', 'a::t'), ('mb', 'b::t'))]
                    if not all(v[2] for v in vals):
                        out.append(('forcing with recompute=True leaves a forced task without stored result', f'force({nm!r}, {flags}) via {via}: {vals}'))
                    continue
                fa, fb = forced_names(ca), forced_names(cb)
                # d and m are one shared object each, t differs between the members (pt): forcing d through the MultiChain marks d, m, t in
                # every member; through one member it marks that member's three tasks (the shared d, m show as forced in the other one too)
                exp_a = ['a::d', 'a::m', 'a::t'] if via != 'member-second' else ['a::d', 'a::m']
                exp_b = ['b::d', 'b::m', 'b::t'] if via != 'member-first' else ['b::d', 'b::m']
                if fa != exp_a or fb != exp_b:
                    out.append((f'forcing {"through the MultiChain" if via == "multichain" else "through a member chain"} does not mark exactly the task and everything downstream of it',
                                f'force given as {how} via {via}: forced in `ma` {fa} (expected {exp_a}), in `mb` {fb} (expected {exp_b})'))
                if via == 'multichain':
                    before = runs(w)
                    cb['b::t'].value
                    ca['a::t'].value
                    after = runs(w)
                    delta = {k: after.get(k, 0) - before.get(k, 0) for k in after}
                    if delta != {'D': 1, 'M': 1, 'T': 2}:
                        out.append(('forced tasks are not recomputed exactly once on the next requests', f'force given as {how} via {via}: runs after forcing {delta}'))
            except Exception as e:  # noqa
                out.append(('forcing in a MultiChain with namespaced members fails', f'force given as {how} via {via}: {type(e).__name__}: {e}'))
            finally:
                w.dispose()
                scratch.drop(root)

    # ---- (f) two pipelines mounted under SWAPPED namespaces by the two members; force given as the member's own task object
    desc2 = {'name': 'mc-swap', 'tasks': desc['tasks'],
             'configs': {'leaf1': {'medium': 'json', 'file': 'leaf1.json', 'tasks': ['D', 'M', 'T'], 'values': {'pd': 1}},
                         'leaf2': {'medium': 'json', 'file': 'leaf2.json', 'tasks': ['D', 'M', 'T'], 'values': {'pd': 2}},
                         'm1': {'medium': 'json', 'file': 'm1.json', 'tasks': [], 'values': {}, 'uses': [{'config': 'leaf1', 'as': 'a'}, {'config': 'leaf2', 'as': 'b'}]},
                         'm2': {'medium': 'json', 'file': 'm2.json', 'tasks': [], 'values': {}, 'uses': [{'config': 'leaf2', 'as': 'a'}, {'config': 'leaf1', 'as': 'b'}]}},
             'root': 'm1', 'variants': {'v': []}}
    for member, name in (('m2', 'b::d'), ('m2', 'a::d'), ('m1', 'a::d')):
        for as_object in (False, True):
            root = scratch.fresh('c13n')
            w = worlds.World(desc2, root)
            try:
                mc = MultiChain([w.make_config('v', base_dir=root + '/data', root=r) for r in ('m1', 'm2')])
                ch = mc[member]
                pdv = ch[name].params.pd
                ch.force(ch[name] if as_object else name)
                got = {m: forced_names(mc[m]) for m in ('m1', 'm2')}
                ns, other = name.split('::')[0], {'a': 'b', 'b': 'a'}[name.split('::')[0]]
                exp = {member: [f'{ns}::d', f'{ns}::m', f'{ns}::t'], ('m1' if member == 'm2' else 'm2'): [f'{other}::d', f'{other}::m', f'{other}::t']}   # the same three shared objects under the other member's names
                if got != exp:
                    out.append(('forcing through a member chain marks other tasks than the named one and everything downstream of it',
                                f'{member}.force({"task object " if as_object else ""}{name!r}) (pd={pdv}): forced {got}, expected {exp}'))
            except Exception as e:  # noqa
                out.append(('forcing in a MultiChain with swapped namespaces fails', f'{member}.force({"task object " if as_object else ""}{name!r}): {type(e).__name__}: {e}'))
            finally:
                w.dispose()
                scratch.drop(root)

    # ---- (g) the mounted pipeline itself uses a namespaced config whose name ends like the mount name (`as a` around `as data`)
    desc3 = {'name': 'mc-inner', 'tasks': {'D': {'name': 'd', 'params': [P('pd', default=1)], 'inputs': [], 'data': 'json'},
                                            'U': {'name': 'u', 'params': [], 'inputs': [{'how': 'name', 'ref': 'data::d'}], 'data': 'json'}},
             'configs': {'leafx': {'medium': 'json', 'file': 'leafx.json', 'tasks': ['D'], 'values': {}},
                         'pipe': {'medium': 'json', 'file': 'pipe.json', 'tasks': ['U'], 'values': {}, 'uses': [{'config': 'leafx', 'as': 'data'}]},
                         'ma': {'medium': 'json', 'file': 'ma.json', 'tasks': [], 'values': {}, 'uses': [{'config': 'pipe', 'as': 'a'}]},
                         'mdata': {'medium': 'json', 'file': 'mdata.json', 'tasks': [], 'values': {}, 'uses': [{'config': 'pipe', 'as': 'ta'}]},
                         'mb': {'medium': 'json', 'file': 'mb.json', 'tasks': [], 'values': {}, 'uses': [{'config': 'pipe', 'as': 'b'}]}},
             'root': 'pipe', 'variants': {'v': []}}
    root = scratch.fresh('c13n')
    w = worlds.World(desc3, root)
    try:
        mc = MultiChain([w.make_config('v', base_dir=root + '/data', root=r) for r in ('ma', 'mb', 'mdata')])
        alone = Chain(w.make_config('v', base_dir=root + '/data', root='pipe'))
        objs = [mc['ma']['a::u'], mc['mb']['b::u'], mc['mdata']['ta::u']]
        paths = [os.path.relpath(str(t.data_path), root) for t in objs] + [os.path.relpath(str(alone['u'].data_path), root)]
        if len(set(paths)) != 1:
            out.append(('the same computation has different storage locations in different members', f'pipeline mounted as a / b / ta / not mounted: {paths}'))
        elif not (objs[0] is objs[1] is objs[2]):
            out.append(('tasks that are the same computation are not one shared object across the chains', 'pipeline (using `leafx as data`) mounted as a, b and ta'))
        # ... and a member that IS the pipeline (not mounted at all), built before or after the mounting member
        for order in (('ma', 'pipe'), ('pipe', 'ma')):
            mc2 = MultiChain([w.make_config('v', base_dir=root + '/data', root=r) for r in order])
            pu, pm = mc2['pipe']['u'], mc2['ma']['a::u']
            p2 = [os.path.relpath(str(pu.data_path), root), os.path.relpath(str(pm.data_path), root), paths[-1]]
            if len(set(p2)) != 1 or pu is not pm:
                out.append(('the same computation has different storage locations in different members', f'members {order} (pipeline itself / mounted as a / standalone): {p2}, one object: {pu is pm}'))
    except Exception as e:  # noqa
        out.append(('MultiChain over a pipeline with an inner namespace cannot be built / evaluated', f'{type(e).__name__}: {e}'))
    finally:
        w.dispose()
        scratch.drop(root)

    # ---- (h) a task with `~pattern` inputs inside the shared pipeline: wired in every member, whatever namespace the member mounts it under
    desc4 = {'name': 'mc-pattern', 'tasks': {'Px': {'name': 'part_x', 'params': [], 'inputs': [], 'data': 'json'}, 'Py': {'name': 'part_y', 'params': [], 'inputs': [], 'data': 'json'},
                                              'Agg': {'name': 'agg', 'params': [], 'inputs': [{'how': 'pattern', 'ref': '~part_.*'}], 'data': 'json'},
                                              'Rep': {'name': 'rep', 'params': [P('pr', default=1)], 'inputs': [bc('Agg')], 'data': 'json'}},
             'contexts': {'mb': {'kind': 'dict', 'data': {}, 'for_namespaces': {'b': {'pr': 2}}}},
             'configs': {'leaf': {'medium': 'json', 'file': 'leaf.json', 'tasks': ['Px', 'Py', 'Agg', 'Rep'], 'values': {}},
                         'leaf_r': {'medium': 'json', 'file': 'leaf_r.json', 'tasks': ['Agg', 'Py', 'Px', 'Rep'], 'values': {}},   # the same tasks declared in another order
                         'ma': {'medium': 'json', 'file': 'ma.json', 'tasks': [], 'values': {}, 'uses': [{'config': 'leaf', 'as': 'a'}]},
                         'mb': {'medium': 'json', 'file': 'mb.json', 'tasks': [], 'values': {}, 'uses': [{'config': 'leaf_r', 'as': 'b'}]}},
             'root': 'ma', 'variants': {'v': []}}
    for order in (('ma', 'mb'), ('mb', 'ma')):
        root = scratch.fresh('c13n')
        w = worlds.World(desc4, root)
        try:
            mc = MultiChain([w.make_config('v', base_dir=root + '/data', root=r) for r in order])
            for member, ns in (('ma', 'a'), ('mb', 'b')):
                ch = mc[member]
                agg = ch[f'{ns}::agg']
                ins = sorted(n.split('::')[-1] for n, t in agg.input_tasks.items())
                req = sorted(t.fullname.split('::')[-1] for t in ch.required_tasks(f'{ns}::rep'))
                term = w.decode(ch[f'{ns}::rep'].value, 'json')['term']
                got_inputs = sorted(k.lstrip('~').split('::')[-1] for k in term['i']['Agg']['i'])   # (a shared object carries the input names of the member wired last)
                if ins != ['part_x', 'part_y'] or req != ['agg', 'part_x', 'part_y'] or got_inputs != ['part_x', 'part_y']:
                    out.append(('pattern inputs of a shared task are not wired in every member', f'members {order}, member {member}: inputs {ins}, required tasks of rep {req}, value computed from {got_inputs}'))
                    break
            if mc['ma']['a::agg'] is not mc['mb']['b::agg'] or mc['ma']['a::agg'].data_path != mc['mb']['b::agg'].data_path:
                out.append(('tasks that are the same computation are not one shared object across the chains',
                            f'members {order}: task with pattern inputs, parts declared in another order by the second member: {mc["ma"]["a::agg"].data_path.name} vs {mc["mb"]["b::agg"].data_path.name}'))
            mc.force('part_x')
            fb = forced_names(mc['mb'])
            if fb != ['b::agg', 'b::part_x', 'b::rep']:
                out.append(('forcing through the MultiChain does not mark exactly the task and everything downstream of it', f'members {order}: force(part_x): forced in `mb` {fb}'))
        except Exception as e:  # noqa
            out.append(('MultiChain over a pipeline with pattern inputs cannot be built / evaluated', f'members {order}: {type(e).__name__}: {e}'))
        finally:
            w.dispose()
            scratch.drop(root)

    # ---- (e) members with their own data directories: storage locations as for the standalone chains
    root = scratch.fresh('c13n')
    w = worlds.World(desc, root)
    try:
        c1 = w.make_config('v', base_dir=root + '/data1', root='plain')
        c2 = w.make_config('v', base_dir=root + '/data2', root='ma')
        mc = MultiChain([c1, c2])
        p1, p2 = str(mc['plain']['d'].data_path), str(mc['ma']['a::d'].data_path)
        s2 = str(Chain(w.make_config('v', base_dir=root + '/data2', root='ma'))['a::d'].data_path)
        if p2 != s2:
            out.append(('storage location of a member chain differs from the standalone chain of the same config', f'member `ma` (data directory data2): {os.path.relpath(p2, root)}, standalone {os.path.relpath(s2, root)}'))
        mc['ma']['a::t'].value
        if not os.path.exists(s2):
            out.append(('value computed through a member chain is not stored where the standalone chain looks for it', f'{os.path.relpath(s2, root)} missing'))
    except Exception as e:  # noqa
        out.append(('MultiChain over members with different data directories cannot be built / evaluated', f'{type(e).__name__}: {e}'))
    finally:
        w.dispose()
        scratch.drop(root)
    return out


# ------------------------------------------------------------------------------------------------ histories
class MSim:
    def __init__(self, name, vids):
        self.base = BASES[name]()
        self.d = multi_desc(self.base, vids)
        self.root = scratch.fresh('c13h')
        self.w = worlds.World(self.d, self.root)
        self.models = [member_model(self.d, r, self.w.modname) for r in self.d['root']]
        self.stored = set()
        self.restart()

    def restart(self):
        self.mc = self.w.chain('m', base_dir=self.root + '/data')
        self.chains = [self.mc[self.models[i].config_name(r)] for i, r in enumerate(self.d['root'])]
        self.mem = set()
        self.forced = set()
        self.done = set()   # forced and recomputed since: whether the mark is still shown is left open

    def obj(self, i, fn):
        m = self.models[i]
        return (m.tasks[fn].local, m.key(fn))

    def need(self, i, fn, runs):
        m = self.models[i]
        o = self.obj(i, fn)
        kind = m.tasks[fn].decl.get('data', 'json')
        if o in self.mem:
            return
        if kind != 'inmemory' and o in self.stored and o not in self.forced:
            self.mem.add(o)
            return
        runs.append(o)
        for tgt in m.requested_inputs(fn):
            self.need(i, tgt, runs)
        if kind != 'inmemory':
            self.stored.add(o)
        self.mem.add(o)
        if o in self.forced:
            self.forced.discard(o)   # forcing is for the next computation, which is done now
            self.done.add(o)

    def close(self):
        self.w.dispose()
        scratch.drop(self.root)


def run_mhist(name, vids, hist):
    sim = MSim(name, vids)
    out = []
    try:
        w = sim.w
        for step, op in enumerate(hist):
            case = {'kind': 'hist', 'base': name, 'vids': vids, 'hist': [list(o) for o in hist[:step + 1]]}
            mark = len(w.rt.log)
            if op[0] == 'value':
                _, i, fn = op
                runs = []
                sim.need(i, fn, runs)
                m = sim.models[i]
                try:
                    term = w.decode(sim.chains[i].tasks[fn].value, m.tasks[fn].decl.get('data', 'json'))['term']
                except Exception as e:  # noqa
                    out.append(Violation('value request through a member failed', f'{name}{vids} {case["hist"]}: {type(e).__name__}: {e}', case))
                    break
                got = [[r[0].split('::')[-1], r[1]] for r in w.rt.log[mark:]]
                if term != m.term(fn):
                    out.append(Violation('member returns another config\'s value', f'{name}{vids} history {case["hist"]}: {term} but member {i}\'s config yields {m.term(fn)}', case))
                    break
                if sorted(got) != sorted([list(o) for o in runs]):
                    kind = 'value not shared in memory between members (recomputed or reloaded)' if len(got) > len(runs) else 'computation skipped'
                    out.append(Violation(kind, f'{name}{vids} history {case["hist"]}: ran {got}, model {runs}', case))
                    break
            elif op[0] == 'force':
                _, fns = op
                exp_forced = set()
                for i, m in enumerate(sim.models):
                    reach = m.closure()
                    for f in fns:
                        if f in m.tasks:
                            exp_forced.add(sim.obj(i, f))
                            exp_forced |= {sim.obj(i, a) for a in m.tasks if f in reach[a]}
                try:
                    sim.mc.force(list(fns))
                except Exception as e:  # noqa
                    out.append(Violation('MultiChain.force raised', f'{name}{vids} {case["hist"]}: {type(e).__name__}: {e}', case))
                    break
                sim.forced |= exp_forced
                sim.done -= exp_forced
                sim.mem -= exp_forced
                bad = {}
                for i, (ch, m) in enumerate(zip(sim.chains, sim.models)):
                    for fn, t in ch.tasks.items():
                        if sim.obj(i, fn) in sim.done:
                            continue
                        if bool(t.is_forced) != (sim.obj(i, fn) in sim.forced):
                            bad[(i, fn)] = bool(t.is_forced)
                if bad:
                    out.append(Violation('forcing through the MultiChain does not mark the closure in every member', f'{name}{vids} history {case["hist"]}: (member, task) -> is_forced {bad}', case))
                    break
            elif op[0] == 'restart':
                sim.restart()
    finally:
        sim.close()
    return out


def _hist_job(args):
    import tcv

    tcv.quiet_library()
    name, vids, depth, shard, nshards = args
    res = Result()
    sim = MSim(name, vids)
    tasks = [[fn for fn in sorted(m.tasks)] for m in sim.models]
    sim.close()
    alphabet = [('value', i, fn) for i in range(len(vids)) for fn in tasks[i]]
    firsts = sorted({fn for t in tasks for fn in t})
    alphabet += [('force', [fn]) for fn in firsts[:2]] + [('restart',)]
    n = 0
    for dd in range(1, depth + 1):
        for hist in itertools.product(alphabet, repeat=dd):
            n += 1
            if n % nshards != shard:
                continue
            res.add('evaluations')
            res.add('transitions', dd)
            res.violations.extend(run_mhist(name, vids, hist)[:1])
    res.add('states', res.coverage.get('evaluations', 0))
    return res


def run(tier, seed):
    res = Result()
    ls = lists(tier)
    k = seed % len(ls)
    ls = ls[k:] + ls[:k]
    for r in pmap(_construction, ls):
        res.merge(r)
    import tcv
    tcv.quiet_library()
    res.add('evaluations', 4 + 1 + 8 + 6 + 1 + 1)  # special scenarios: parts, shared file, registry, forcing forms, swapped namespaces, inner namespace, data directories
    for kind, msg in special_scenarios():
        res.violations.append(Violation(kind, msg, {'kind': 'special'}))
    res.coverage['config_lists'] = len(ls)
    depth = 3 if tier == 'quick' else 4
    hj = []
    for name, vids in ([('chain3', ['v0', 'v2']), ('unrel', ['v0', 'vc'])] if tier == 'quick' else [('chain3', ['v0', 'v2']), ('unrel', ['v0', 'vc']), ('unrel', ['v0', 'vb']), ('mount2', ['v11', 'v12'])]):
        nsh = 16
        hj += [(name, vids, depth if name != 'mount2' else 3, s, nsh) for s in range(nsh)]
    for r in pmap(_hist_job, hj):
        res.merge(r)
    res.coverage['states'] = res.coverage.get('states', 0) + len(ls)
    res.coverage['traces_validated_against_impl'] = res.coverage['evaluations']
    res.coverage['exhaustive'] = True
    res.coverage['rule'] = ('every pair (and, thorough, triple) of variants of 6 pipelines as a MultiChain: member == standalone chain; same object iff same reference descriptor for every pair of '
                            'tasks of different members; all histories to the depth over {value(member, task), MultiChain.force(task), restart}; distinct_nontrivial = lists in which sharing occurs')
    res.sample({'base': 'chain3', 'vids': ['v0', 'v2'], 'history': [['value', 0, 'b'], ['value', 1, 'c'], ['force', ['a']]]})
    res.assumptions += ['member configs are renamed copies (distinct names are required by MultiChain); contexts are per member']
    return res


def replay(case):
    import tcv

    tcv.quiet_library()
    if case['kind'] == 'special':
        return [Violation(k, m, case) for k, m in special_scenarios()]
    if case['kind'] == 'construct':
        return _construction((case['base'], case['vids'])).violations
    return run_mhist(case['base'], case['vids'], [tuple(o) for o in case['hist']])
