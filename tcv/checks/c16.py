"""C16 - `cached` keys identify the call, not how it was written.

X: 27 signature shapes (0-2 positional-or-keyword, 0-2 defaulted, keyword-only absent / defaulted / required) x every binding
over a small value set (<= 2 distinct values per call) x EVERY spelling of that binding (positional prefix, every keyword
order, defaults spelled out or omitted, equal dict values in another insertion order) on the real decorator; ignore_kwargs
subsets; own in-memory cache, own JsonCache, explicit cache object; two methods and two versions on one object.
H: every history of depth <= 3 over {plain, force_cache, only_cache, store_cache_value} x 2 bindings against a dict model.
"""
import itertools
import json

from tcv import scratch
from tcv.core import Result, Violation
from tcv.pool import pmap

DEFAULTS = {'c': 1, 'd': None, 'k': '1'}
VALUES_Q = [0, 1, '1', None, {'a': 1, 'b': [2]}, 1.0, True]
VALUES_T = [0, 1, '1', None, [1], {'a': 1, 'b': [2]}, 1.0, True, False, 0.0]


def shapes():
    for npos in range(3):
        for ndef in range(3):
            for kwo in ('none', 'default', 'required'):
                yield (npos, ndef, kwo)


def params_of(shape):
    npos, ndef, kwo = shape
    pos = ['a', 'b'][:npos]
    dfl = ['c', 'd'][:ndef]
    return pos, dfl, kwo


def signature_src(shape):
    pos, dfl, kwo = params_of(shape)
    parts = ['self'] + pos + [f'{p}={DEFAULTS[p]!r}' for p in dfl]
    if kwo == 'default':
        parts += ['*', f"k={DEFAULTS['k']!r}"]
    elif kwo == 'required':
        parts += ['*', 'k']
    names = pos + dfl + (['k'] if kwo != 'none' else [])
    return ', '.join(parts), names


def make_class(shape, ignore=(), version=None, style='call', explicit=None):
    from taskchain.cache import cached

    sig, names = signature_src(shape)
    body = '{' + ', '.join(f'{n!r}: {n}' for n in names) + '}'
    if style == 'bare':
        deco = '@cached'
    else:
        args = []
        if explicit is not None:
            args.append('_explicit')
        if ignore:
            args.append(f'ignore_kwargs={list(ignore)!r}')
        if version is not None:
            args.append(f'version={version!r}')
        deco = f'@cached({", ".join(args)})'
    src = f'''
class K:
    def __init__(self, cache):
        self.cache = cache
        self.n = 0
        self.n2 = 0
    {deco}
    def m(self, {sig[6:] if sig.startswith("self, ") else ""}):
        self.n += 1
        return {{'m': 1, 'args': {body}, 'exec': self.n}}
    {deco}
    def m2(self, {sig[6:] if sig.startswith("self, ") else ""}):
        self.n2 += 1
        return {{'m': 2, 'args': {body}, 'exec': self.n2}}
'''
    ns = {'cached': cached, '_explicit': explicit}
    exec(src, ns)
    return ns['K'], names


def bindings(shape, values):
    sig, names = signature_src(shape)
    n = len(names)
    if n == 0:
        yield {}
        return
    seen = set()
    for combo in itertools.product(range(len(values)), repeat=n):
        if len(set(combo)) > 2:
            continue
        b = {nm: values[i] for nm, i in zip(names, combo)}
        k = json.dumps(b, sort_keys=True)
        if k not in seen:
            seen.add(k)
            yield b


def _respell_value(v):
    """equal value written differently: dict with reversed insertion order (nested too)"""
    if isinstance(v, dict) and len(v) > 1:
        return {k: v[k] for k in reversed(list(v))}
    return None


def spellings(shape, b, all_orders=True):
    """every way of writing the call that binds exactly b: (args tuple, kwargs in insertion order)"""
    pos, dfl, kwo = params_of(shape)
    positional_capable = pos + dfl
    out = []
    omit_opts = []
    omittable = [p for p in dfl + (['k'] if kwo == 'default' else []) if b[p] == DEFAULTS[p] and type(b[p]) is type(DEFAULTS[p])]
    for r in range(len(omittable) + 1):
        for om in itertools.combinations(omittable, r):
            omit_opts.append(set(om))
    for omitted in omit_opts:
        for p in range(len(positional_capable) + 1):
            prefix = positional_capable[:p]
            if any(x in omitted for x in prefix):
                continue
            rest = [x for x in positional_capable[p:] if x not in omitted] + (['k'] if kwo != 'none' and 'k' not in omitted else [])
            perms = list(itertools.permutations(rest)) if (all_orders or len(rest) <= 3) else [tuple(rest), tuple(reversed(rest)), tuple(rest[1:] + rest[:1])]
            for perm in perms:
                out.append((tuple(b[x] for x in prefix), {x: b[x] for x in perm}))
    # value-level respelling on the first spelling that has such a value
    extra = []
    for args, kw in out[:4]:
        a2 = tuple(_respell_value(v) if _respell_value(v) is not None else v for v in args)
        k2 = {k: (_respell_value(v) if _respell_value(v) is not None else v) for k, v in kw.items()}
        if any(_respell_value(v) is not None for v in list(args) + list(kw.values())):
            extra.append((a2, k2))
    return out + extra


def _tj(v):
    """type-strict image: 1, 1.0 and True are different arguments (they are different JSON)"""
    return json.dumps(v, sort_keys=True)


def canon(b, ignore=()):
    return json.dumps({k: v for k, v in b.items() if k not in ignore}, sort_keys=True)


def _make_cache(kind, root):
    from taskchain.cache import InMemoryCache, JsonCache

    if kind == 'memory':
        return InMemoryCache()
    return JsonCache(scratch.fresh('jc'))


def _check_shape(args):
    import tcv

    tcv.quiet_library()
    shape, tier, cache_kind, ignore, style = args
    res = Result()
    values = VALUES_Q if tier == 'quick' else VALUES_T
    if cache_kind == 'json':
        values = values[:3] + values[4:6]
    K, names = make_class(shape, ignore=ignore, style=style)
    obj = K(_make_cache(cache_kind, None))
    first_value = {}
    execs = 0
    case0 = {'shape': list(shape), 'cache': cache_kind, 'ignore': list(ignore), 'style': style}
    for b in bindings(shape, values):
        key = canon(b, ignore)
        sp = spellings(shape, b, all_orders=(tier != 'quick'))
        if key not in first_value:
            execs += 1
            first_value[key] = {'m': 1, 'args': dict(b), 'exec': execs}   # every execution returns something new: a stale entry is visible
        expected = first_value[key]
        for a, kw in sp:
            res.add('evaluations')
            res.add('transitions')
            try:
                got = obj.m(*a, **dict(kw))
            except Exception as e:  # noqa
                res.violations.append(Violation(f'cached: call raised ({type(e).__name__})', f'shape {shape} ignore {ignore} {cache_kind}: m(*{a!r}, **{kw!r}): {e}', dict(case0, binding=b)))
                break
            if _tj(got) != _tj(expected) or obj.n != execs:
                kind = 'wrong value for the binding' if _tj(got) != _tj(expected) else ('method executed again for an equal binding' if obj.n > execs else 'method not executed for a new binding')
                res.violations.append(Violation(
                    f'cached: {kind}',
                    f'signature m({signature_src(shape)[0]}) ignore={list(ignore)} cache={cache_kind} style={style}: call m(*{a!r}, **{kw!r}) binds {b}; returned {got!r}, expected {expected!r}; '
                    f'executions so far {obj.n}, distinct bindings so far {execs}', dict(case0, binding=b)))
                obj.n = execs  # resynchronise so one defect is reported once per binding
                break
        if len(sp) > 1:
            res.add('distinct_nontrivial')
    res.add('states', len(first_value))
    # entries == distinct bindings (own in-memory cache exposes its size)
    if cache_kind == 'memory' and style != 'bare':
        sub = obj.cache.subcache('m')
        if len(sub) != len(first_value) and not res.violations:
            res.violations.append(Violation('cached: number of cache entries differs from the number of distinct bindings',
                                            f'shape {shape} ignore {ignore}: {len(sub)} entries for {len(first_value)} bindings', case0))
    return res


def _check_text_arguments():
    """text arguments that differ ONLY in non-ASCII letters (or have `?` where the other has such a letter), at top level and nested, on every
    kind of cache: each binding is executed once and gets its own entry; `only_cache` finds nothing for a binding never called"""
    import numpy as np
    from taskchain.cache import InMemoryCache, JsonCache, NumpyArrayCache, cached

    res = Result()
    texts = ['\u0161\u00edpek', '\u010d\u00edpek', '?\u00edpek', 'sipek', {'okres': 'T\u0159eb\u00ed\u010d'}, {'okres': 'T\u0159eb\u00ed\u0161'}, {'okres': 'T?eb??'}, ['\u00e9'], ['\u00e8'], '\u65e5\u672c', '\u4e2d\u56fd']
    for cache_kind in ('memory', 'json', 'numpy'):
        calls = []

        class K:
            def __init__(self, cache):
                self.cache = cache

            @cached()
            def lookup(self, text, exact=True):
                calls.append(text)
                n = len(calls)
                return np.array([n]) if cache_kind == 'numpy' else {'n': n}

        cache = InMemoryCache() if cache_kind == 'memory' else (JsonCache if cache_kind == 'json' else NumpyArrayCache)(scratch.fresh('c16t'))
        o = K(cache)
        case = {'kind': 'text-arguments'}
        try:
            for i, t in enumerate(texts):
                res.add('evaluations', 3)
                try:
                    from taskchain.cache import NO_VALUE
                    found = o.lookup(t, only_cache=True) is not NO_VALUE
                except Exception:  # noqa  (an entry that cannot be read is no value either)
                    found = False
                first = o.lookup(t)
                again = o.lookup(text=t, exact=True)
                n1 = int(first[0]) if cache_kind == 'numpy' else first['n']
                n2 = int(again[0]) if cache_kind == 'numpy' else again['n']
                if found or n1 != i + 1 or n2 != i + 1 or len(calls) != i + 1:
                    res.violations.append(Violation('cached: text arguments that differ only in non-ASCII characters share an entry',
                                                    f'{cache_kind} cache, lookup({t!r}) after {texts[:i]!r}: found before the first call: {found}; returned entry {n1}/{n2}, expected {i + 1}; executions {len(calls)}', case))
                    break
        except Exception as e:  # noqa
            res.violations.append(Violation('cached: call with a text argument raised', f'{cache_kind} cache: {type(e).__name__}: {e}', case))
    return res


def _check_methods_versions(tier):
    """with the object's own cache, different methods and versions never share entries"""
    from taskchain.cache import InMemoryCache, JsonCache, cached

    res = Result()
    for cache_kind in ('memory', 'json'):
        for shape in [(1, 0, 'none'), (1, 1, 'default'), (0, 0, 'none')]:
            K, names = make_class(shape)
            o = K(_make_cache(cache_kind, None))
            b = {n: 0 for n in names}
            r1 = o.m(**b)
            r2 = o.m2(**b)
            res.add('evaluations', 2)
            if r1 == r2 or o.n != 1 or o.n2 != 1:
                res.violations.append(Violation('cached: two methods share an entry in the object\'s own cache', f'shape {shape} {cache_kind}: m -> {r1}, m2 -> {r2}, executions {o.n}/{o.n2}',
                                                {'kind': 'methods', 'shape': list(shape), 'cache': cache_kind}))
            # versions: same function name, different version strings
            calls = []

            class V:
                def __init__(self, cache):
                    self.cache = cache

            def mk(ver):
                def m(self, x=0):
                    calls.append(ver)
                    return {'ver': ver, 'x': x}
                return cached(version=ver)(m) if ver is not None else cached()(m)
            V.m_none, V.m_1, V.m_2, V.m_0, V.m_e = mk(None), mk('1'), mk('2'), mk(0), mk('')   # a version label that is falsy is a label all the same
            v = V(_make_cache(cache_kind, None))
            outs = [v.m_none(5), v.m_1(5), v.m_2(5), v.m_0(5), v.m_e(5), v.m_none(5), v.m_1(5), v.m_2(x=5), v.m_0(x=5), v.m_e(5)]
            res.add('evaluations', 10)
            if calls != [None, '1', '2', 0, ''] or [o_['ver'] for o_ in outs] != [None, '1', '2', 0, '', None, '1', '2', 0, '']:
                res.violations.append(Violation('cached: versions of a method share entries', f'{cache_kind}: executions {calls}, results {outs}', {'kind': 'versions', 'cache': cache_kind}))
        # a method whose result is None: cached like any other result (executed once, store_cache_value does not replace it unforced)
        nc = []

        class N:
            def __init__(self, cache):
                self.cache = cache

            @cached
            def lookup(self, x, strict=False):
                nc.append(x)
                return None
        no = N(_make_cache(cache_kind, None))
        res.add('evaluations', 6)
        try:
            rr = [no.lookup(1), no.lookup(1), no.lookup(x=1, strict=False), no.lookup(1, only_cache=True), no.lookup(1, store_cache_value='manual'), no.lookup(1)]
            okn = rr == [None] * 6 and nc == [1]
            detn = f'results {rr}, executions {nc}'
        except Exception as e:  # noqa
            okn, detn = False, f'{type(e).__name__}: {e}'
        if not okn:
            res.violations.append(Violation('cached: a stored None is treated as a missing entry', f'{cache_kind}: {detn}', {'kind': 'versions', 'cache': cache_kind}))
        # version labels that differ only in characters a file name does not like
        vcalls = []

        class VV:
            def __init__(self, cache):
                self.cache = cache

        def mkv(ver):
            def m(self, x=0):
                vcalls.append(ver)
                return {'ver': ver, 'x': x}
            return cached(version=ver)(m)
        labels = ['r1/2', 'r1_2', 'r1:2', '2024-05 b', '2024-05:b', 'a.b', 'a_b']
        for i_, lab in enumerate(labels):
            setattr(VV, f'm{i_}', mkv(lab))
        vo = VV(_make_cache(cache_kind, None))
        res.add('evaluations', 2 * len(labels))
        try:
            outs_v = [getattr(vo, f'm{i_}')(5)['ver'] for i_ in range(len(labels))] + [getattr(vo, f'm{i_}')(x=5)['ver'] for i_ in range(len(labels))]
            okv = outs_v == labels * 2 and vcalls == labels
            detv = f'results {outs_v}, executions {vcalls}'
        except Exception as e:  # noqa
            okv, detv = False, f'{type(e).__name__}: {e}'
        if not okv:
            res.violations.append(Violation('cached: versions of a method share entries', f'{cache_kind}, labels {labels}: {detv}', {'kind': 'versions', 'cache': cache_kind}))
        # a method with a catch-all for keyword arguments: what it catches is part of the binding
        ex2 = []

        class X:
            def __init__(self, cache):
                self.cache = cache

            @cached
            def load(self, name, sep=',', **options):
                ex2.append((name, sep, tuple(sorted(options.items()))))
                return [name, sep, options]
        xo = X(_make_cache(cache_kind, None))
        res.add('evaluations', 8)
        try:
            r = [xo.load('a', lang='en'), xo.load('a', lang='de'), xo.load('a', lang='en'), xo.load(name='a', lang='en', sep=','), xo.load('a'), xo.load('a', ',', lang='en', strict=True),
                 xo.load('a', strict=True, lang='en'), xo.load('a', lang='de', only_cache=True)]
            want = [['a', ',', {'lang': 'en'}], ['a', ',', {'lang': 'de'}], ['a', ',', {'lang': 'en'}], ['a', ',', {'lang': 'en'}], ['a', ',', {}], ['a', ',', {'lang': 'en', 'strict': True}],
                    ['a', ',', {'lang': 'en', 'strict': True}], ['a', ',', {'lang': 'de'}]]
            ok = r == want and len(ex2) == 4
            detail = f'results {r}, executions {ex2}'
        except Exception as e:  # noqa
            ok, detail = False, f'{type(e).__name__}: {e}'
        if not ok:
            res.violations.append(Violation('cached: keyword arguments caught by **kwargs do not identify the call', f'{cache_kind}: {detail}', {'kind': 'versions', 'cache': cache_kind}))
        # ONE decorator object applied to two methods with different signatures (e.g. `versioned = cached(version='2')`)
        for first in ('scale', 'shift'):
            deco = cached(version='2')
            ex = []

            class W:
                def __init__(self, cache):
                    self.cache = cache

                @deco
                def scale(self, x, factor=2):
                    ex.append('scale')
                    return ['scale', x, factor]

                @deco
                def shift(self, x, offset=0, factor=10):
                    ex.append('shift')
                    return ['shift', x, offset, factor]
            wobj = W(_make_cache(cache_kind, None))
            res.add('evaluations', 9)
            try:
                if first == 'scale':
                    r0 = [wobj.scale(3), wobj.scale(3, 2), wobj.scale(x=3, factor=2)]
                r1 = [wobj.shift(3), wobj.shift(3, 0), wobj.shift(3, 0, 10), wobj.shift(3, factor=10), wobj.shift(factor=10, offset=0, x=3)]
                r2 = wobj.shift(3, 5)
                if first == 'shift':
                    r0 = [wobj.scale(3), wobj.scale(3, 2), wobj.scale(x=3, factor=2)]
                ok = r0 == [['scale', 3, 2]] * 3 and r1 == [['shift', 3, 0, 10]] * 5 and r2 == ['shift', 3, 5, 10] and sorted(ex) == ['scale', 'shift', 'shift']
                detail = f'scale -> {r0}, shift -> {r1}, shift(3, 5) -> {r2}, executions {ex}'
            except Exception as e:  # noqa
                ok, detail = False, f'{type(e).__name__}: {e}'
            if not ok:
                res.violations.append(Violation('cached: one decorator object on two methods mixes up their signatures', f'{cache_kind}, `{first}` called first: {detail}', {'kind': 'versions', 'cache': cache_kind}))
    return res


OPS = ['plain', 'force', 'only', 'store', 'force_store']


def _check_histories(args):
    import tcv

    tcv.quiet_library()
    from taskchain.cache import NO_VALUE

    cache_kind, explicit, depth = args[:3]
    nb = args[3] if len(args) > 3 else 2
    res = Result()
    from taskchain.cache import InMemoryCache
    b_list = [{'a': 0, 'c': 1}, {'a': 0, 'c': None}]
    alphabet = [(op, bi) for op in OPS for bi in range(nb)]
    outcomes = set()
    for hist in itertools.chain.from_iterable(itertools.product(alphabet, repeat=d) for d in range(1, depth + 1)):
        exp_cache = _make_cache(cache_kind, None) if explicit else None
        K, names = make_class((1, 1, 'none'), explicit=exp_cache)
        o = K(_make_cache(cache_kind, None))
        model = {}
        execs = 0
        trace = []
        for step, (op, bi) in enumerate(hist):
            b = b_list[bi]
            key = canon(b)
            sv = {'stored': step}
            kw = dict(b)
            if op == 'plain':
                if key not in model:
                    execs += 1
                    model[key] = {'m': 1, 'args': dict(b), 'exec': execs}
                want = model[key]
            elif op == 'force':
                kw['force_cache'] = True
                execs += 1
                model[key] = {'m': 1, 'args': dict(b), 'exec': execs}
                want = model[key]
            elif op == 'only':
                kw['only_cache'] = True
                want = model.get(key, NO_VALUE)
            elif op == 'store':
                kw['store_cache_value'] = sv
                if key not in model:
                    model[key] = sv
                want = model[key]
            elif op == 'force_store':
                kw['store_cache_value'] = sv
                kw['force_cache'] = True
                model[key] = sv
                want = model[key]
            got = o.m(**kw)
            res.add('transitions')
            trace.append((op, bi, repr(got)))
            if not (got is want or got == want) or o.n != execs:
                res.violations.append(Violation(
                    f'cached: control keyword `{op}` disagrees with the dictionary model',
                    f'cache={cache_kind} explicit={explicit} history {list(hist[:step + 1])}: returned {got!r}, model {want!r}; executions {o.n}, model {execs}',
                    {'kind': 'hist', 'cache': cache_kind, 'explicit': explicit, 'hist': [list(h) for h in hist[:step + 1]]}))
                break
        res.add('evaluations')
        outcomes.add(tuple(trace))
    res.add('states', len(outcomes))
    res.add('distinct_nontrivial', len(outcomes))
    return res


def run(tier, seed):
    res = Result()
    jobs = []
    for shape in shapes():
        sig, names = signature_src(shape)
        jobs.append((shape, tier, 'memory', (), 'call'))
        if shape[0] + shape[1] <= 2 or tier != 'quick':
            jobs.append((shape, tier, 'json', (), 'call'))
        jobs.append((shape, tier, 'memory', (), 'bare'))
        for ign in (['d'], ['a'], ['k'], ['c', 'k']):
            if all(i in names for i in ign):
                jobs.append((shape, tier, 'memory', tuple(ign), 'call'))
    k = seed % len(jobs)
    jobs = jobs[k:] + jobs[:k]
    for r in pmap(_check_shape, jobs):
        res.merge(r)
    res.coverage['shape_jobs'] = len(jobs)
    res.merge(_check_methods_versions(tier))
    res.merge(_check_text_arguments())
    depth = 3 if tier == 'quick' else 4
    for r in pmap(_check_histories, [('memory', False, depth), ('memory', True, depth), ('json', False, min(depth, 3)), ('json', True, min(depth, 3)),
                                           ('json', True, 4, 1), ('json', False, 4, 1), ('memory', True, 5, 1)]):   # the last three: one binding, longer (create, read, force, read)
        res.merge(r)
    res.coverage['traces_validated_against_impl'] = res.coverage['evaluations']
    res.coverage['exhaustive'] = True
    res.coverage['rule'] = ('27 signature shapes x every binding over %d values (<=2 distinct per call) x every spelling (positional prefix x keyword orders x defaults omitted/spelled x dict '
                            'key order); ignore_kwargs subsets; bare/called decorator; in-memory/Json/explicit caches; histories of depth <= %d over 5 control forms x 2 bindings vs dict model; '
                            'distinct_nontrivial = bindings with more than one spelling + distinct history outcomes') % (len(VALUES_Q if tier == 'quick' else VALUES_T), depth)
    res.sample({'shape': [2, 2, 'required'], 'binding': {'a': 0, 'b': None, 'c': 1, 'd': None, 'k': '1'},
                'spellings': len(spellings((2, 2, 'required'), {'a': 0, 'b': None, 'c': 1, 'd': None, 'k': '1'}))})
    res.assumptions += ['argument values are compared as JSON (1, 1.0 and True are different arguments; tuples are not used)', 'the explicit cache object is not required to separate methods (statement: own cache only)']
    return res


def replay(case):
    import tcv

    tcv.quiet_library()
    if case.get('kind') == 'hist':
        r = _check_histories((case['cache'], case['explicit'], len(case['hist']), 2))
        return [v for v in r.violations if v.case['hist'] == case['hist']]
    if case.get('kind') == 'text-arguments':
        return _check_text_arguments().violations
    if case.get('kind') in ('methods', 'versions'):
        return _check_methods_versions('quick').violations
    r = _check_shape((tuple(case['shape']), 'thorough', case['cache'], tuple(case['ignore']), case['style']))
    return [v for v in r.violations if v.case.get('binding') == case.get('binding')] or r.violations[:1]
