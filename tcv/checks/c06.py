"""C06 - stored values round-trip exactly.

X: every value of a bounded domain per data class goes through a REAL task (own storage key per value); compared
type-strictly: the value the harness built, the value the computing chain returned, the value a fresh chain loads; the
stored bytes must be identical before and after loading.
"""
import copy
import hashlib
import itertools
import os
from collections.abc import Generator
from pathlib import Path

import numpy as np
import pandas as pd

from tcv import scratch
from tcv.core import Result, Violation, digest
from tcv.pool import pmap

# ------------------------------------------------------------------------------------------------ domains
JSON_ATOMS = [0, 1, -1, 2 ** 63 - 1, -2 ** 63, 2 ** 64 - 1, 0.0, -0.0, 1.5, 0.1, 1e16, 1e308, 5e-324, -1e-7, True, False, None, '', 'a', ' x ', 'a\nb', ' ', '\x00', 'é☃😀', '"', "'", '\\',
              'a b', ' ', '\x85', 'a\rb', '\x0b\x0c\x1c\x1d\x1e', '\t', 'null', '1', '{"a": 1}', '[]']
KEYS = ['k', '', ' ', 'é☃', 'a\nb', '1', 'K' * 40, 'a b', '"']


def json_values(tier):
    A = JSON_ATOMS
    vals = []
    for a in A:
        vals += [[a], {'k': a}, [[a]], {'k': [a]}, [{'k': a}], {'k': {'j': a}}, [a, a], [[], a, {}], {'a': a, 'b': [a, None]}, [[[a]]], {'k': {'j': [a, {'z': a}]}}]
    for k in KEYS:
        vals += [{k: 1}, {k: {k: [k]}}, [{k: None}]]
    vals += [[], {}, [[]], [{}], {'k': []}, {'k': {}}, [[], []], {'b': 1, 'a': 2, 'c': {'z': 1, 'y': 2}}, list(range(50)), {'k%d' % i: i for i in range(30)}, [None], [None, None], {'n': None}]
    pairs = A if tier != 'quick' else A[::3]
    for a, b in itertools.product(pairs, repeat=2):
        vals.append([a, b])
        if tier != 'quick':
            vals.append({'x': a, 'y': [b, {'z': a}]})
    if tier != 'quick':
        for a, b, c in itertools.product(A[::4], repeat=3):
            vals.append([a, [b, {'k': c}]])
    tops = [a for a in A if a is not None]
    return tops + vals


def numpy_specs(tier):
    dtypes = ['bool', 'int8', 'int16', 'int32', 'int64', 'uint8', 'uint16', 'uint32', 'uint64', 'float16', 'float32', 'float64', 'complex64', 'complex128', '<U1', '<U4', 'S3']
    shapes = [(), (0,), (1,), (3,), (2, 0), (2, 3), (1, 2, 2)]
    fills = ['zeros', 'ramp', 'extremes']
    layouts = ['C', 'F', 'strided']
    out = []
    for dt, sh, fl, lay in itertools.product(dtypes, shapes, fills, layouts):
        if tier == 'quick' and (lay == 'strided' and fl != 'ramp' or lay == 'F' and len(sh) < 2):
            continue
        out.append({'dtype': dt, 'shape': list(sh), 'fill': fl, 'layout': lay})
    out.append({'dtype': 'float64', 'shape': [2200000], 'fill': 'ramp', 'layout': 'C'})  # > 16 MiB on disk
    out.append({'dtype': 'uint8', 'shape': [9000000], 'fill': 'ramp', 'layout': 'C'})     # > 8 MiB
    return out


def build_array(spec):
    dt = np.dtype(spec['dtype'])
    shape = tuple(spec['shape'])
    n = int(np.prod(shape)) if shape else 1
    if dt.kind in 'US':
        pool = ['', 'a', 'zz', 'é' if dt.kind == 'U' else 'q', 'abcd'][: 5]
        flat = np.array([pool[i % len(pool)] if spec['fill'] != 'zeros' else '' for i in range(n)], dtype=dt)
    elif dt.kind == 'b':
        flat = np.array([(i % 2 == 1) and spec['fill'] != 'zeros' for i in range(n)], dtype=dt)
    elif spec['fill'] == 'zeros':
        flat = np.zeros(n, dtype=dt)
    elif spec['fill'] == 'ramp':
        flat = (np.arange(n) - 1).astype(dt) if dt.kind != 'u' else np.arange(n).astype(dt)
    else:
        if dt.kind in 'iu':
            info = np.iinfo(dt)
            ext = [info.min, info.max, 0, 1]
        elif dt.kind == 'f':
            info = np.finfo(dt)
            ext = [info.min, info.max, info.tiny, -0.0, float(info.eps)]
        else:
            ext = [complex(1e30, -1e-30), complex(-0.0, 0.0), 1j]
        flat = np.array([ext[i % len(ext)] for i in range(n)], dtype=dt)
    arr = flat.reshape(shape)
    if spec['layout'] == 'F':
        arr = np.asfortranarray(arr)
    elif spec['layout'] == 'strided' and arr.ndim >= 1 and arr.shape[0] > 0:
        big = np.concatenate([arr, arr], axis=0)
        arr = big[::2] if big.shape[0] >= 2 else arr
        arr = np.concatenate([arr, arr], axis=0)[::2] if False else arr
    return arr


def frame_specs(tier):
    idx = ['range', 'int', 'str', 'multi', 'datetime']
    cols = ['str', 'int', 'tuple']
    dts = ['int', 'float', 'bool', 'objstr', 'category', 'mixed']
    out = [{'kind': 'frame', 'index': i, 'cols': c, 'dtype': d, 'rows': r} for i, c, d in itertools.product(idx, cols, dts) for r in ((3,) if tier == 'quick' else (0, 1, 3))]
    out += [{'kind': 'frame', 'index': 'range', 'cols': 'str', 'dtype': 'int', 'rows': 0}, {'kind': 'empty'}]
    out += [{'kind': 'series', 'index': i, 'dtype': d, 'name': nm, 'rows': 3} for i in idx for d in dts[:5] for nm in (None, 'n', 5)]
    return out


def build_frame(spec):
    if spec['kind'] == 'empty':
        return pd.DataFrame()
    r = spec['rows']
    index = {'range': pd.RangeIndex(r), 'int': pd.Index([10, -3, 7][:r], dtype='int64'), 'str': pd.Index(['b', 'a', 'é'][:r]),
             'multi': pd.MultiIndex.from_tuples([('x', 1), ('x', 2), ('y', 1)][:r], names=['l0', None]) if r else pd.MultiIndex.from_arrays([[], []], names=['l0', None]),
             'datetime': pd.DatetimeIndex(['2020-01-01', '2020-01-03', '1999-12-31 23:59:59'][:r])}[spec['index']]

    def col(d, j):
        base = {'int': [1, -2, 2 ** 40], 'float': [0.5, -0.0, 1e300], 'bool': [True, False, True], 'objstr': ['s', '', 'é☃'], 'category': ['u', 'v', 'u'], 'mixed': [1, 'a', None]}[d][:r]
        s = pd.Series(base, index=index)
        if d == 'category':
            s = s.astype('category')
        if d == 'int':
            s = s.astype('int64')
        return s
    if spec['kind'] == 'series':
        s = col(spec['dtype'], 0)
        s.name = spec['name']
        return s
    labels = {'str': ['a', 'b'], 'int': [0, 5], 'tuple': [('t', 1), ('t', 2)]}[spec['cols']]
    df = pd.DataFrame({labels[0]: col(spec['dtype'], 0), labels[1]: col('float', 1)})
    if spec['cols'] == 'tuple':
        df.columns = pd.MultiIndex.from_tuples(labels)
    return df


def gen_specs(tier):
    items = [0, 'a', None, [1, 'x'], {'k': [None]}, 'a b', '\x85', 'x\ny', '', [], {}, 1.5, -0.0, True, 'é', ' lead', 'trail ', ' ', '\t', '\x0c']
    out = [[]]
    for n in (1, 2, 3):
        pool = items if (n < 3 and tier != 'quick') or n == 1 else items[::4]
        for t in itertools.product(pool, repeat=n):
            out.append(list(t))
    return out


def large_gen_specs():
    """sizes beyond any internal batch / buffer size"""
    return [list(range(4097)), [{'i': i, 's': 'x' * (i % 7)} for i in range(10000)], ['é' * 50] * 5000, list(range(4096)), list(range(8193))]


def lon_specs(tier):
    specs = numpy_specs('quick')[::17]
    out = [[]]
    for n in (1, 2, 3):
        for t in itertools.combinations(specs[: 8 if tier == 'quick' else 14], n):
            out.append(list(t))
    # more than ten arrays: files 0.npy .. 11.npy must come back in numeric, not lexical, order
    out.append([{'dtype': 'float64', 'shape': [300, 300], 'fill': 'ramp', 'layout': 'C'}, {'dtype': 'uint8', 'shape': [100000], 'fill': 'ramp', 'layout': 'C'}])
    out.append([{'dtype': 'int64', 'shape': [1], 'fill': 'ramp', 'layout': 'C'} if i % 2 else {'dtype': 'float32', 'shape': [i], 'fill': 'ramp', 'layout': 'C'} for i in range(12)])
    # arrays of ONE dtype whose flattened bytes coincide but whose shapes differ (every empty array has the same, empty, bytes), and truly repeated arrays
    for dt in ('float64', 'int16', '<U1', 'bool'):
        for fill in ('zeros', 'ramp'):
            for shapes in ([[0, 4], [0]], [[3], [1, 3], [3, 1]], [[2, 3], [3, 2], [6]], [[], [1], [1, 1]], [[3], [3]]):
                out.append([{'dtype': dt, 'shape': sh, 'fill': fill, 'layout': 'C'} for sh in shapes])
    # one more decimal digit in the index than any fixed-width file name is likely to allow for: 10001 arrays, neighbours differ in shape
    out.append([{'dtype': 'int16', 'shape': [i % 3 + 1], 'fill': 'ramp', 'layout': 'C'} for i in range(10001)])
    return out


def dir_specs(tier):
    return [{'files': {}}, {'files': {'a.txt': 'x'}}, {'files': {'a.txt': '', 'sub/b.bin': 'é\x00', 'sub/deep/c': 'c' * 1000}}, {'files': {'sub/only': '1'}, 'dirs': ['empty_dir']},
            {'files': {' spaced name.txt': 'v', 'ü.txt': 'u'}}]


# ------------------------------------------------------------------------------------------------ strict equality
def same(a, b, path='$'):
    """-> None if identical (type-strict), else description of the first difference"""
    if isinstance(a, np.ndarray) or isinstance(b, np.ndarray):
        if not (isinstance(a, np.ndarray) and isinstance(b, np.ndarray)):
            return f'{path}: {type(a).__name__} vs {type(b).__name__}'
        if a.dtype != b.dtype:
            return f'{path}: dtype {a.dtype} vs {b.dtype}'
        if a.shape != b.shape:
            return f'{path}: shape {a.shape} vs {b.shape}'
        if np.ascontiguousarray(a).tobytes() != np.ascontiguousarray(b).tobytes():
            return f'{path}: contents differ'
        return None
    if isinstance(a, (pd.DataFrame, pd.Series)) or isinstance(b, (pd.DataFrame, pd.Series)):
        if type(a) is not type(b):
            return f'{path}: {type(a).__name__} vs {type(b).__name__}'
        try:
            if isinstance(a, pd.DataFrame):
                pd.testing.assert_frame_equal(a, b, check_exact=True, check_dtype=True, check_index_type=True, check_column_type=True, check_names=True, check_categorical=True)
            else:
                pd.testing.assert_series_equal(a, b, check_exact=True, check_dtype=True, check_index_type=True, check_names=True, check_categorical=True)
        except AssertionError as e:
            return f'{path}: {str(e)[:200]}'
        return None
    if type(a) is not type(b):
        return f'{path}: type {type(a).__name__} vs {type(b).__name__} ({a!r} vs {b!r})'
    if isinstance(a, list):
        if len(a) != len(b):
            return f'{path}: length {len(a)} vs {len(b)}'
        for i, (x, y) in enumerate(zip(a, b)):
            r = same(x, y, f'{path}[{i}]')
            if r:
                return r
        return None
    if isinstance(a, dict):
        if set(a) != set(b):
            return f'{path}: keys {sorted(a)!r} vs {sorted(b)!r}'
        for k in a:
            r = same(a[k], b[k], f'{path}[{k!r}]')
            if r:
                return r
        return None
    if isinstance(a, float):
        return None if repr(a) == repr(b) else f'{path}: {a!r} vs {b!r}'
    return None if a == b else f'{path}: {a!r} vs {b!r}'


def dir_listing(p):
    p = Path(p)
    out = {}
    for x in sorted(p.rglob('*')):
        rel = str(x.relative_to(p))
        out[rel] = None if x.is_dir() else x.read_bytes()
    return out


# ------------------------------------------------------------------------------------------------ tasks
_CLASSES = {}


def classes():
    if _CLASSES:
        return _CLASSES
    from taskchain import Parameter, Task
    from taskchain.data import DirData, GeneratedDataLazy, ListOfNumpyData

    def mk(name, ann, body, meta_extra=None):
        ns = {'Task': Task, 'Parameter': Parameter, 'np': np, 'pd': pd, 'Generator': Generator, 'DirData': DirData, 'copy': copy, 'B': __import__('tcv.checks.c06', fromlist=['x']),
              'GeneratedDataLazy': GeneratedDataLazy, 'ListOfNumpyData': ListOfNumpyData}
        src = f'''
class {name}(Task):
    class Meta:
        parameters = [Parameter('idx'), Parameter('v')]
        {meta_extra or 'pass'}
    def run(self, v) -> {ann}:
{body}
'''
        exec(src, ns)
        ns[name].__module__ = 'tcv.checks.c06'
        return ns[name]
    for name, ann in (('Jdict', 'dict'), ('Jlist', 'list'), ('Jstr', 'str'), ('Jint', 'int'), ('Jfloat', 'float'), ('Jbool', 'bool')):
        _CLASSES[name] = mk(name, ann, '        return copy.deepcopy(v)')
    _CLASSES['Gen'] = mk('Gen', 'Generator', '        yield from copy.deepcopy(v)')
    _CLASSES['GenLazy'] = mk('GenLazy', 'Generator', '        yield from copy.deepcopy(v)', 'data_class = GeneratedDataLazy')
    # a generator that yields ONE row object again and again, updated in between (a running total, a reused buffer)
    _CLASSES['GenBuf'] = mk('GenBuf', 'Generator', '''        row = {}
        for i, x in enumerate(copy.deepcopy(v)):
            row['i'] = i
            row['x'] = x
            yield row''')
    _CLASSES['Np'] = mk('Np', 'np.ndarray', '        return B.build_array(v)')
    _CLASSES['Lon'] = mk('Lon', 'list', '        return [B.build_array(s) for s in v]', 'data_class = ListOfNumpyData')
    _CLASSES['Pd'] = mk('Pd', 'pd.DataFrame', '        return B.build_frame(v)')
    _CLASSES['Ps'] = mk('Ps', 'pd.Series', '        return B.build_frame(v)')
    # the value is NOT a parameter: one storage location whose run returns what the harness holds at the moment (a recomputation may return something else)
    _CLASSES['JlistHold'] = mk('JlistHold', 'list', '        return copy.deepcopy(B.HOLD[0])')
    _CLASSES['NpHold'] = mk('NpHold', 'np.ndarray', '        return B.build_array(B.HOLD[0])')
    _CLASSES['LonHold'] = mk('LonHold', 'list', '        return [B.build_array(x) for x in B.HOLD[0]]', 'data_class = ListOfNumpyData')
    _CLASSES['PdHold'] = mk('PdHold', 'pd.DataFrame', '        return B.build_frame(B.HOLD[0])')
    _CLASSES['GenHold'] = mk('GenHold', 'Generator', '        yield from copy.deepcopy(B.HOLD[0])')
    _CLASSES['Dir'] = mk('Dir', 'DirData', '''        d = self.get_data_object()
        for rel, content in v['files'].items():
            p = d.dir / rel
            p.parent.mkdir(parents=True, exist_ok=True)
            p.write_bytes(content.encode('utf-8'))
        for rel in v.get('dirs', []):
            (d.dir / rel).mkdir(parents=True)
        return d''')
    return _CLASSES


HOLD = [None]


def rewrite_groups():
    """groups of values that compare EQUAL under Python's / numpy's `==` (or coincide in bytes) without being the same value, and values of
    very different stored length: every ordered pair (first, second) of a group is stored first / recomputed second at ONE storage location"""
    J = [[[1], [1.0], [True]], [[0], [0.0], [False], [-0.0]], [[{'k': 1}], [{'k': 1.0}], [{'k': True}]], [[[1, 2, 3]], [[1.0, 2.0, 3.0]]],
         [[{'a': [0], 'b': 'x'}], [{'a': [False], 'b': 'x'}]], [['y' * 200], ['y']], [[list(range(60))], [[]], [[0]]], [[1, 'a'], [1.0, 'a']], [[2 ** 53], [float(2 ** 53)]]]

    def a(dt, sh, fill='ramp'):
        return {'dtype': dt, 'shape': sh, 'fill': fill, 'layout': 'C'}
    NP = [[a('int64', [3]), a('float64', [3]), a('int8', [3])], [a('float64', [3]), a('float64', [1, 3]), a('float64', [3, 1])], [a('bool', [2], 'zeros'), a('int8', [2], 'zeros'), a('float32', [2], 'zeros')],
          [a('int32', [6]), a('int32', [2, 3]), a('int32', [1])], [a('<U1', [2]), a('<U4', [2])]]
    LON = [[[x] for x in g] for g in NP[:2]] + [[[a('int64', [2]), a('int64', [2])], [a('int64', [2])], []]]

    def f(dt, idx='range', rows=3):
        return {'kind': 'frame', 'index': idx, 'cols': 'str', 'dtype': dt, 'rows': rows}
    PD = [[f('int'), f('float'), f('bool')], [f('int'), f('int', rows=1), f('int', 'int')]]
    GEN = [[[1, 2], [1.0, 2.0], [True, 2]], [[{'k': 0}], [{'k': False}]], [list(range(40)), [0]]]
    return {'JlistHold': J, 'NpHold': NP, 'LonHold': LON, 'PdHold': PD, 'GenHold': GEN}


def check_rewrite(cname, idx, v1, v2, base):
    """v1 is computed and stored; the task is forced and its run now returns v2: the recomputing chain returns v2 and every later chain
    loads v2 - exactly, not something that merely compares equal to it"""
    from taskchain import Config

    cls = classes()[cname]
    name = cls.slugname
    kind = {'JlistHold': 'Jlist', 'NpHold': 'Np', 'LonHold': 'Lon', 'PdHold': 'Pd', 'GenHold': 'Gen'}[cname]

    def chain():
        return Config(base, name='c', data={'tasks': [cls], 'idx': idx, 'v': None}).chain()
    out = []
    try:
        HOLD[0] = v1
        first = materialise(kind, chain()[name].value)
        r = same(expected(kind, v1), first)
        if r:
            out.append(('computing chain returns something else than run returned', r))
        HOLD[0] = v2
        t = chain()[name]
        t.force()
        second = materialise(kind, t.value)
        r = same(expected(kind, v2), second)
        if r:
            out.append(('recomputing chain returns something else than run returned', r))
        HOLD[0] = 'must not run again'
        loaded = materialise(kind, chain()[name].value)
        r = same(expected(kind, v2), loaded)
        if r:
            out.append(('after a recomputation a later chain loads something else than run returned', r))
    except Exception as e:  # noqa
        out.append(('store / recompute / load of values of the storable domain failed', f'{type(e).__name__}: {str(e)[:200]}'))
    finally:
        HOLD[0] = None
    return out


def _rewrite_job(args):
    import tcv

    tcv.quiet_library()
    cname, groups = args
    res = Result()
    base = Path(scratch.fresh('c06r'))
    try:
        idx = 0
        for g in groups:
            for v1, v2 in itertools.permutations(g, 2):
                idx += 1
                res.add('evaluations')
                res.add('transitions', 3)
                res.add('rewrite_pairs')
                for kind, msg in check_rewrite(cname, f'{cname}{idx}', v1, v2, base):
                    res.violations.append(Violation(f'{cname}: {kind}', f'stored first {v1!r}, recomputed {v2!r}: {msg}', {'rewrite': cname}))
    finally:
        scratch.drop(str(base))
    return res


def class_for_json(v):
    if isinstance(v, bool):
        return 'Jbool'
    return {dict: 'Jdict', list: 'Jlist', str: 'Jstr', int: 'Jint', float: 'Jfloat'}[type(v)]


def expected(cname, v):
    if cname in ('Np',):
        return build_array(v)
    if cname == 'Lon':
        return [build_array(s) for s in v]
    if cname in ('Pd', 'Ps'):
        return build_frame(v)
    if cname == 'GenBuf':
        # the library collects the generated rows in a list: n references to the one row, which shows its last state
        return [{'i': len(v) - 1, 'x': copy.deepcopy(v[-1])} for _ in v]
    if cname == 'Dir':
        out = {}
        for rel, content in v['files'].items():
            parts = rel.split('/')
            for i in range(1, len(parts)):
                out['/'.join(parts[:i])] = None
            out[rel] = content.encode('utf-8')
        for rel in v.get('dirs', []):
            out[rel] = None
        return out
    return copy.deepcopy(v)


def materialise(cname, value):
    """turn what Task.value returns into something comparable"""
    if cname == 'Dir':
        return dir_listing(value)
    if cname == 'GenLazy':
        return list(value() if callable(value) else value)
    return value


def tree_bytes(root):
    h = hashlib.sha1()
    for r, ds, fs in os.walk(root):
        ds.sort()
        for f in sorted(fs):
            if f.endswith('.lock'):
                continue
            p = os.path.join(r, f)
            h.update(os.path.relpath(p, root).encode())
            h.update(open(p, 'rb').read())
        for d in ds:
            # inspecting / loading a directory-type task creates an empty `<key>_tmp` work directory next to the result:
            # not a stored file (the statement is about the stored files), so empty work directories are not counted
            if d.endswith('_tmp') and not os.listdir(os.path.join(r, d)):
                continue
            h.update(('D' + os.path.relpath(os.path.join(r, d), root)).encode())
    return h.hexdigest()


def check_value(cname, idx, v, base):
    from taskchain import Config

    cls = classes()[cname]
    name = cls.slugname

    def chain():
        return Config(base, name='c', data={'tasks': [cls], 'idx': idx, 'v': copy.deepcopy(v)}).chain()
    exp = expected(cname, v)
    try:
        t = chain()[name]
        computed = materialise(cname, t.value)
    except Exception as e:  # noqa
        return [('computing chain failed on a value of the storable domain', f'{type(e).__name__}: {str(e)[:200]}')]
    out = []
    r = same(exp, computed)
    if r:
        out.append(('computing chain returns something else than run returned', r))
    before = tree_bytes(base)
    try:
        t2 = chain()[name]
        if not t2.has_data:
            return out + [('no stored result after computing', '')]
        loaded = materialise(cname, t2.value)
    except Exception as e:  # noqa
        return out + [('stored value cannot be loaded', f'{type(e).__name__}: {str(e)[:200]}')]
    r = same(exp, loaded)
    if r:
        out.append(('loaded value differs from the value run returned', r))
    r = same(computed, loaded)
    if r and not out:
        out.append(('loaded value differs from what the computing chain returned', r))
    if tree_bytes(base) != before:
        out.append(('loading changed the stored files', ''))
    # the loaded value is the caller's own copy: changing it in place must not change what is stored
    if cname == 'Np' and isinstance(loaded, np.ndarray) and loaded.size and loaded.dtype.kind in 'iufb':
        try:
            loaded[...] = loaded.dtype.type(1) if loaded.dtype.kind != 'b' else ~loaded
        except (ValueError, TypeError):
            pass  # a read-only result cannot be modified: fine
        again = materialise(cname, chain()[name].value)
        r2 = same(exp, again)
        if r2:
            out.append(('modifying a loaded value in place changed the stored result', r2))
    else:
        try:
            raw = t2.value
        except Exception:  # noqa
            raw = None
        if isinstance(raw, (list, dict)) and _pollute(raw):
            # (e.g. a downstream task that sorts / extends its input in place): a later chain still loads what run returned
            try:
                again = materialise(cname, chain()[name].value)
                r2 = same(exp, again)
            except Exception as e:  # noqa
                r2 = f'{type(e).__name__}: {e}'
            if r2:
                out.append(('modifying a loaded value in place changed what a later chain loads', r2))
    return out


def _pollute(o):
    """change every container of a JSON-like value in place; -> whether anything could be changed"""
    if isinstance(o, list):
        for x in o:
            _pollute(x)
        o.append('POLLUTED')
        o.reverse()
        return True
    if isinstance(o, dict):
        for x in list(o.values()):
            _pollute(x)
        o['POLLUTED'] = 1
        return True
    return False


def _job(args):
    import tcv

    tcv.quiet_library()
    cname, items = args
    res = Result()
    base = Path(scratch.fresh('c06'))
    try:
        for idx, v in items:
            res.add('evaluations')
            res.add('transitions', 2)
            cn = cname if cname != 'J' else class_for_json(v)
            bad = check_value(cn, idx, v, base)
            for kind, msg in bad:
                res.violations.append(Violation(f'{cn}: {kind}', f'value {v!r}: {msg}', {'cname': cn, 'idx': idx, 'v': v}))
    finally:
        scratch.drop(str(base))
    return res


def run(tier, seed):
    import tcv

    tcv.quiet_library()
    doms = {'J': json_values(tier) + [list(range(100000)), {'k%d' % i: [i, str(i)] for i in range(20000)}, 'y' * 300000],
            'Gen': gen_specs(tier) + large_gen_specs(), 'GenLazy': gen_specs('quick') + large_gen_specs()[:2], 'GenBuf': [g for g in gen_specs('quick') if g][:40], 'Np': numpy_specs(tier), 'Lon': lon_specs(tier), 'Pd': [s for s in frame_specs(tier) if s['kind'] != 'series'],
            'Ps': [s for s in frame_specs(tier) if s['kind'] == 'series'], 'Dir': dir_specs(tier)}
    jobs = []
    sizes = {}
    for cname, vals in doms.items():
        items = list(enumerate(vals))
        sizes[cname] = len(items)
        n = max(1, min(16, len(items) // 20))
        k = seed % n
        for i in range(n):
            jobs.append((cname, items[(i + k) % n::n]))
    res = Result()
    for r in pmap(_job, jobs):
        res.merge(r)
    for r in pmap(_rewrite_job, list(rewrite_groups().items())):
        res.merge(r)
    res.coverage['domain_sizes'] = sizes
    res.coverage['states'] = sum(sizes.values())
    res.coverage['distinct_nontrivial'] = sum(sizes.values())
    res.coverage['traces_validated_against_impl'] = res.coverage['evaluations']
    res.coverage['exhaustive'] = True
    res.coverage['rule'] = ('JSON: 37 atoms (boundary ints/floats, -0.0, unicode incl. line/paragraph separators and control characters, falsy values) at top level and inside 11 container shapes, '
                            'unusual keys, pairs (thorough: triples); numpy: 17 dtypes x 7 shapes (0-d .. 3-d, empty) x 3 fills x 3 layouts; frames/series: 5 index kinds x 3 column-label kinds x '
                            '6 dtypes (+ empty, named/unnamed series); generated sequences of 0-3 items (eager and lazy); lists of 0-3 arrays; directory contents. Every value through a real task: '
                            'built == computed == loaded (type-strict), stored bytes unchanged by loading')
    res.sample({'numpy': numpy_specs('quick')[5], 'json': json_values('quick')[40:43]})
    res.assumptions += ['dict key order is not compared (sort_keys is by design); NaN, ints beyond 64 bits, lone surrogates, non-string keys, object arrays are outside the stated domain']
    return res


def replay(case):
    import tcv

    tcv.quiet_library()
    if 'rewrite' in case:
        return _rewrite_job((case['rewrite'], rewrite_groups()[case['rewrite']])).violations
    base = Path(scratch.fresh('c06r'))
    try:
        return [Violation(f'{case["cname"]}: {k}', m, case) for k, m in check_value(case['cname'], case['idx'], case['v'], base)]
    finally:
        scratch.drop(str(base))
