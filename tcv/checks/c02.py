"""C02 - storage location depends only on what goes into the computation.

X as a rewrite graph: nodes are configurations, edges are computation-preserving rewritings (rename / move config files,
JSON<->YAML, mount under an outer namespace, permute tasks / uses / parameter declarations / mapping keys, change an
ignored parameter, spell out or omit a not-persisted default, move a value from the config to a context, change the value
behind a placeholder, add an absent optional input, build in a fresh interpreter under another hash seed). Breadth-first
search over all compositions of <= 2 (quick) / 3 (thorough) rewritings from each base configuration; invariant on every
edge: the relative storage path of every corresponding task is unchanged.
"""
import copy
import json
import os
import subprocess
import sys

from tcv import VERIF_DIR, families, refmodel, scratch, worlds
from tcv.core import HarnessError, Result, Violation, digest, jdump
from tcv.pool import pmap

P, bc = families.P, families.by_class


# ------------------------------------------------------------------------------------------------ base worlds
def pvals(value, name):
    return {
        'name': f'pvals-{name}',
        'tasks': {
            'V': {'params': [P('v'), P('ign', default=0, ignore=True), P('dflt', default=3, dpdv=True), P('pth', default=None, dtype='Path'),
                             P('unit', default='m/s', dpdv=True)], 'inputs': [], 'data': 'json'},
            'W': {'params': [P('w', default=1)], 'inputs': [bc('V')], 'data': 'json'},
        },
        'configs': {'root': {'medium': 'json', 'tasks': ['V', 'W'], 'values': {'v': value, 'pth': '{DIR}/p'}}},
        'root': 'root', 'global_vars': {'DIR': '/data', 'LENGTH': 'm'}, 'variants': {},
    }


VALUE_SHAPES = {
    'scalar': 7,
    'nested': [1, 'a', {'k2': [2, {'z': None, 'y': True}], 'k1': 1.5}],
    'placeholder': ['{DIR}/x', {'k': 'a{DIR}b'}],
    # equal sub-values at several places (written out twice, or written once and referred to twice)
    # mappings below a list whose elements are all lists (a table of steps with options)
    'table': [['scale', {'factor': 2, 'offset': 1}], ['clip', {'lo': 0, 'hi': 9, 'mode': {'b': 1, 'a': 2}}]],
    'twins': {'train': ['id', 'text', {'k': [1]}], 'test': ['id', 'text', {'k': [1]}], 'all': [['id', 'text', {'k': [1]}], {'k': [1]}]},
    'auto-scalar': {'__obj__': 'Auto1', 'kwargs': {'a': 1, 'b': 'x'}},
    'auto-list': {'__obj__': 'Auto1', 'kwargs': {'a': [1, [2, 'x']], 'b': 2}},
    'auto-dict': {'__obj__': 'Auto1', 'kwargs': {'a': {'k1': 1, 'k2': 2}}},
    'auto-set': {'__obj__': 'AutoSet', 'kwargs': {'items': ['x', 'y', 'zz']}},
    # raw argument stored privately, a processed form (depends on what the placeholder was replaced by) exposed publicly
    'auto-raw': {'__obj__': 'AutoRaw', 'kwargs': {'path': '{DIR}/vocab'}},
    'hand': {'__obj__': 'Hand1', 'args': [['h', 1]]},
    'plain-args': {'__obj__': 'Plain1', 'args': [1, 'b']},
    'plain-kwargs': {'__obj__': 'Plain1', 'kwargs': {'a': 1, 'b': 2}},
    'auto-default': {'__obj__': 'Auto2', 'kwargs': {'a': 1}},
    # parameter objects as ELEMENTS of a list / mapping parameter (e.g. a list of preprocessing steps)
    'auto-in-list': [{'__obj__': 'Auto1', 'kwargs': {'a': 1, 'b': 2}}, {'k': {'__obj__': 'Auto2', 'kwargs': {'a': 'x'}}}, {'__obj__': 'Hand1', 'args': [3]}],
}


def bases(tier):
    out = []
    for name, f in (('chain3', families.chain3), ('diamond', families.diamond), ('mount2', families.mount2), ('parts', families.parts), ('uses2', families.uses2)):
        d = f()
        d.pop('variants', None)
        d['variants'] = {}
        if name == 'mount2':
            d['context'] = worlds.apply_variant(families.mount2(), 'v12')['context']
        out.append(d)
    shapes = list(VALUE_SHAPES) if tier != 'quick' else ['nested', 'placeholder', 'twins', 'table', 'auto-list', 'auto-dict', 'auto-set', 'auto-raw', 'plain-kwargs', 'auto-default', 'auto-in-list']
    for s in shapes:
        out.append(pvals(VALUE_SHAPES[s], s))
    return out


# ------------------------------------------------------------------------------------------------ rewritings
def _ext(c):
    return {'json': 'json', 'yaml': 'yaml', 'part': c.get('ext', 'json')}.get(c['medium'], 'json')


def rw_rename(d):
    seen = {}
    for cid, c in d['configs'].items():
        if c['medium'] == 'inline':
            return None
        old = c.get('file') or f'{cid}.{_ext(c)}'
        seen.setdefault(old, 'renamed_' + old)
        c['file'] = seen[old]
    return d


def rw_move(d):
    for cid, c in d['configs'].items():
        c['dir'] = os.path.join('moved', c.get('dir') or '')
    return d


def rw_media(d):
    for cid, c in d['configs'].items():
        if c['medium'] in ('json', 'yaml'):
            new = 'yaml' if c['medium'] == 'json' else 'json'
            if c.get('file'):
                c['file'] = c['file'].rsplit('.', 1)[0] + '.' + new
            c['medium'] = new
        elif c['medium'] == 'part':
            new = 'yaml' if c.get('ext', 'json') == 'json' else 'json'
            c['file'] = c['file'].rsplit('.', 1)[0] + '.' + new
            c['ext'] = new
    return d


def rw_wrap(ns):
    def f(d):
        name = 'wrap_' + ns.replace('::', '_')
        if name in d['configs'] or len([c for c in d['configs'] if c.startswith('wrap_')]) >= 2:
            return None
        d['configs'][name] = {'medium': 'yaml', 'tasks': [], 'values': {}, 'uses': [{'config': d['root'], 'as': ns}]}
        d['root'] = name
        _prefix_ctx(d.get('context'), ns)
        d.setdefault('_outer', [])
        d['_outer'].insert(0, ns)
        return d
    f.__name__ = f'rw_wrap[{ns}]'
    return f


def _prefix_ctx(ctx, ns):
    """an outer namespace moves every namespace-specific context entry under it and turns global entries into entries
    ... no: global entries stay global (they apply to every namespace)"""
    if ctx is None:
        return
    if ctx['kind'] == 'list':
        for c in ctx['items']:
            _prefix_ctx(c, ns)
        return
    if ctx.get('for_namespaces'):
        ctx['for_namespaces'] = {f'{ns}::{k}': v for k, v in ctx['for_namespaces'].items()}
    for u in ctx.get('uses') or []:
        if u.get('as'):
            u['as'] = f'{ns}::{u["as"]}'
        else:
            _prefix_ctx(u['ctx'], ns)


def rw_alias_equal(d):
    """equal containers inside a config's values become ONE object referred to from every place (a YAML anchor with aliases; one Python
    list reused in a dict config): the value is the same, so is the location"""
    ch = False
    for c in d['configs'].values():
        if c['medium'] not in ('json', 'yaml', 'inline'):
            continue
        seen = []

        def canon(v):
            for s_ in seen:
                if type(s_) is type(v) and s_ == v:
                    return s_
            seen.append(v)
            return None

        def walk(o):
            nonlocal ch
            items = o.items() if isinstance(o, dict) else enumerate(o)
            for k, v in list(items):
                if isinstance(v, (list, dict)) and not (isinstance(v, dict) and '__obj__' in v):
                    first = canon(v)
                    if first is not None and first is not v:
                        o[k] = first
                        ch = True
                    elif first is None:
                        walk(v)
        walk(c.get('values', {}))
        if ch and c['medium'] == 'json':
            if c.get('file'):
                c['file'] = c['file'].rsplit('.', 1)[0] + '.yaml'
            c['medium'] = 'yaml'
    if not ch or d.get('_aliased'):
        return None
    d['_aliased'] = True
    return d


def rw_perm_lists(d):
    ch = False
    for c in d['configs'].values():
        for k in ('tasks', 'uses'):
            if c.get(k) and len(c[k]) > 1:
                c[k] = c[k][::-1]
                ch = True
    return d if ch else None


def _rev(o, inside_obj=False, objs=False):
    """reverse key order of plain dicts (objs=False) or of dict-valued object arguments (objs=True)"""
    if isinstance(o, dict) and '__obj__' in o:
        out = {'__obj__': o['__obj__']}
        if 'args' in o:
            out['args'] = [_rev(x, True, objs) for x in o['args']]
        if 'kwargs' in o:
            out['kwargs'] = {k: _rev(x, True, objs) for k, x in o['kwargs'].items()}
        return out
    if isinstance(o, dict):
        items = [(k, _rev(v, inside_obj, objs)) for k, v in o.items()]
        if inside_obj == objs:
            items = items[::-1]
        return dict(items)
    if isinstance(o, list):
        return [_rev(x, inside_obj, objs) for x in o]
    return o


def rw_perm_keys(d):
    before = jdump_order(d)
    for c in d['configs'].values():
        c['values'] = {k: _rev(v) for k, v in list(c.get('values', {}).items())[::-1]}
        c['key_order'] = ['uses', 'tasks'] if c.get('key_order') != ['uses', 'tasks'] else ['tasks']
    return d if jdump_order(d) != before else None


def rw_perm_obj_dict(d):
    before = jdump_order(d)
    for c in d['configs'].values():
        c['values'] = {k: _rev(v, objs=True) for k, v in c.get('values', {}).items()}
    return d if jdump_order(d) != before else None


def rw_perm_obj_kwargs(d):
    before = jdump_order(d)

    def rk(o):
        if isinstance(o, dict) and '__obj__' in o:
            out = dict(o)
            if 'kwargs' in o:
                out['kwargs'] = dict(list((k, rk(v)) for k, v in o['kwargs'].items())[::-1])
            if 'args' in o:
                out['args'] = [rk(x) for x in o['args']]
            return out
        if isinstance(o, dict):
            return {k: rk(v) for k, v in o.items()}
        if isinstance(o, list):
            return [rk(x) for x in o]
        return o
    for c in d['configs'].values():
        c['values'] = {k: rk(v) for k, v in c.get('values', {}).items()}
    return d if jdump_order(d) != before else None


def jdump_order(o):
    return json.dumps(o, sort_keys=False, default=str)


def rw_ignored(d):
    ch = False
    for cid, c in d['configs'].items():
        if 'V' in (c.get('tasks') or []):
            c['values']['ign'] = (c['values'].get('ign', 0) or 0) + 5
            ch = True
    return d if ch else None


def rw_default_spell(d):
    ch = False
    for cid, c in d['configs'].items():
        for key, dflt, task in (('dflt', 3, 'V'), ('pb', 7, 'B'), ('pc', 'z', 'C')):
            if task in (c.get('tasks') or []) and any(p['name'] == key and p.get('dpdv') for p in d['tasks'][task]['params']):
                if key in c['values'] and c['values'][key] == dflt:
                    del c['values'][key]
                    ch = True
                elif key not in c['values']:
                    c['values'][key] = dflt
                    ch = True
    return d if ch else None


def rw_default_equal_other_form(d):
    """a not-persisted default written as a value that is EQUAL to it but not identical in form: 3 -> 3.0, 'm/s' -> '{LENGTH}/s'"""
    ch = False
    for cid, c in d['configs'].items():
        if 'V' in (c.get('tasks') or []) and any(p['name'] == 'unit' for p in d['tasks']['V']['params']):
            if 'dflt' not in c['values']:
                c['values']['dflt'] = 3.0
                ch = True
            elif c['values']['dflt'] == 3 and isinstance(c['values']['dflt'], int):
                c['values']['dflt'] = 3.0
                ch = True
            if 'unit' not in c['values']:
                c['values']['unit'] = '{LENGTH}/s'
                ch = True
    return d if ch else None


def rw_obj_unpersisted_args(d):
    """arguments of parameter objects that are not persisted: toggle `verbose`, spell out a not-persisted default (Auto2.c=5)"""
    before = jdump_order(d)

    def tw(o):
        if isinstance(o, dict) and '__obj__' in o:
            out = dict(o)
            kw = dict(o.get('kwargs') or {})
            if o['__obj__'] == 'Auto1' and 'args' not in o:
                kw['verbose'] = not kw.get('verbose', False)
            if o['__obj__'] == 'Auto2' and 'c' not in kw:
                kw['c'] = 5
            out['kwargs'] = {k: tw(v) for k, v in kw.items()}
            if 'args' in o:
                out['args'] = [tw(x) for x in o['args']]
            return out
        if isinstance(o, dict):
            return {k: tw(v) for k, v in o.items()}
        if isinstance(o, list):
            return [tw(x) for x in o]
        return o
    for c in d['configs'].values():
        c['values'] = {k: tw(v) for k, v in c.get('values', {}).items()}
    return d if jdump_order(d) != before else None


def rw_to_context(kind):
    def f(d):
        root = d['configs'][_inner_root(d)]
        movable = [k for k, v in root.get('values', {}).items() if not (isinstance(v, dict) and '__obj__' in v) or True]
        if not movable or d.get('context') is not None and d['context']['kind'] == 'list':
            return None
        k = sorted(movable)[0]
        v = root['values'].pop(k)
        outer = d.get('_outer') or []
        ns = '::'.join(outer)
        entry = {'kind': kind, 'data': {}} if kind != 'list' else None
        if kind == 'list':
            new = {'kind': 'list', 'items': [{'kind': 'dict', 'data': {'unrelated_key': 1}}, {'kind': 'json', 'data': {}}]}
            target = new['items'][1]
        else:
            new = entry
            target = entry
        if ns:
            target['for_namespaces'] = {ns: {k: v}}
        else:
            target['data'][k] = v
        if d.get('context') is None:
            d['context'] = new
        else:
            d['context'] = {'kind': 'list', 'items': [d['context'], new]}
        return d
    f.__name__ = f'rw_to_context[{kind}]'
    return f


def _inner_root(d):
    r = d['root']
    while r.startswith('wrap_'):
        r = d['configs'][r]['uses'][0]['config']
    return r


def rw_global_var(d):
    if not d.get('global_vars') or 'DIR' not in d['global_vars']:
        return None
    d['global_vars']['DIR'] = d['global_vars']['DIR'] + '/elsewhere'
    return d


def rw_perm_meta(d):
    ch = False
    for t in d['tasks'].values():
        if len(t.get('params', [])) > 1:
            t['params'] = t['params'][::-1]
            ch = True
        if len(t.get('inputs', [])) > 1:
            t['inputs'] = t['inputs'][::-1]
            ch = True
    return d if ch else None


def rw_add_optional(d):
    for t in d['tasks'].values():
        if any(i['ref'] == 'not_there' for i in t['inputs']):
            return None
        t['inputs'] = t['inputs'] + [{'how': 'opt_name', 'ref': 'not_there', 'default': None}]
    return d


REWRITINGS = [rw_alias_equal, rw_obj_unpersisted_args, rw_default_equal_other_form, rw_rename, rw_move, rw_media, rw_wrap('o'), rw_wrap('o::p'), rw_perm_lists, rw_perm_keys, rw_perm_obj_dict, rw_perm_obj_kwargs, rw_ignored, rw_default_spell,
              rw_to_context('dict'), rw_to_context('json'), rw_to_context('list'), rw_global_var, rw_perm_meta, rw_add_optional]


def apply(rw, d):
    d2 = copy.deepcopy(d)
    try:
        return rw(d2)
    except KeyError:
        return None


# ------------------------------------------------------------------------------------------------ evaluation
def odigest(o):
    """order-sensitive digest: configurations that differ only in key order are different nodes"""
    import hashlib
    return hashlib.sha256(jdump_order(o).encode()).hexdigest()[:16]


def ref_descriptors(desc):
    """reference computation descriptors (ground truth for 'computation-preserving')"""
    d = {k: v for k, v in desc.items() if k not in ('_outer', '_modname')}
    m = refmodel.Model(worlds.apply_variant(d, None), desc.get('_modname', 'tcvpkg.wfixed'))
    if m.error:
        return {'__error__': str(m.error)}
    outer = '::'.join(desc.get('_outer') or [])
    return {(fn[len(outer) + 2:] if outer and fn.startswith(outer + '::') else fn): digest(m.descriptor(fn)) for fn in m.tasks}


def vector(desc):
    """{full name without the outer namespaces: relative storage path} on the real library"""
    root = scratch.fresh('c02')
    w = worlds.World({k: v for k, v in desc.items() if k != '_outer'}, root, modname_unique=False)
    try:
        base = os.path.join(root, 'data')
        ch = w.chain(None, base_dir=base)
        outer = '::'.join(desc.get('_outer') or [])
        out = {}
        for fn, t in ch.tasks.items():
            rel = fn[len(outer) + 2:] if outer and fn.startswith(outer + '::') else fn
            out[rel] = None if t.data_path is None else os.path.relpath(str(t.data_path), base)
        return out
    finally:
        w.dispose()
        scratch.drop(root)


def _eval(items):
    import tcv

    tcv.quiet_library()
    out = []
    for desc in items:
        try:
            out.append(vector(desc))
        except Exception as e:  # noqa
            import traceback
            out.append({'__error__': f'{type(e).__name__}: {e}', 'tb': traceback.format_exc()[-600:]})
    return out


def explore(base, depth, res):
    """BFS over the rewrite graph from `base`; invariant checked on every edge"""
    base = dict(base, _modname='tcvpkg.wc02' + digest(base['tasks'])[:8])  # class-level rewritings keep the module (hence import strings) fixed
    nodes = {odigest(base): (base, [])}
    vecs = {}
    frontier = [odigest(base)]
    vecs[odigest(base)] = _eval([base])[0]
    if '__error__' in vecs[odigest(base)]:
        raise HarnessError(f'base world {base["name"]} does not build: {vecs[odigest(base)]}')
    base_desc = ref_descriptors(base)
    edges = []
    for dd in range(depth):
        new = []
        for nk in frontier:
            desc, path = nodes[nk]
            for rw in REWRITINGS:
                d2 = apply(rw, desc)
                if d2 is None:
                    continue
                if ref_descriptors(d2) != base_desc:
                    res.add('rewritings_discarded_not_computation_preserving')
                    continue
                k2 = odigest(d2)
                edges.append((nk, k2, rw.__name__))
                if k2 not in nodes:
                    nodes[k2] = (d2, path + [rw.__name__])
                    new.append(k2)
        # evaluate new nodes in parallel
        todo = [nodes[k][0] for k in new]
        n = 32
        results = []
        chunks = [todo[i::n] for i in range(n)]
        outs = pmap(_eval, [c for c in chunks if c])
        merged = {}
        ci = 0
        for i in range(n):
            if chunks[i]:
                for d_, v in zip(chunks[i], outs[ci]):
                    merged[odigest(d_)] = v
                ci += 1
        vecs.update(merged)
        frontier = new
    for a, b, name in edges:
        res.add('transitions')
        va, vb = vecs.get(a), vecs.get(b)
        if va is None or vb is None:
            continue
        if '__error__' in vb:
            if '__error__' not in va:
                res.violations.append(Violation(f'{base["name"]}: rewritten configuration does not build ({name})', f'path {nodes[b][1]}: {vb["__error__"]}\n{vb.get("tb", "")}',
                                                {'base': base['name'], 'path': nodes[b][1]}))
            continue
        if '__error__' in va:
            continue
        if va != vb:
            diff = {k: (va.get(k), vb.get(k)) for k in set(va) | set(vb) if va.get(k) != vb.get(k)}
            res.violations.append(Violation(f'{base["name"]}: storage location changes under {name}', f'after {nodes[a][1]} then {name}: (before, after) {dict(list(diff.items())[:3])}',
                                            {'base': base['name'], 'path': nodes[b][1]}))
    res.add('states', len(nodes))
    res.add('evaluations', len(nodes))
    res.add('distinct_nontrivial', len(nodes) - 1)
    return nodes, vecs


# ------------------------------------------------------------------------------------------------ interpreter / hash-seed leg
def seeds_for_all_orders(limit=200):
    """one PYTHONHASHSEED per iteration order of the set {'x','y','zz'} (exhaustive over what matters: the order)"""
    found = {}
    for seed in range(limit):
        out = subprocess.run([sys.executable, '-c', "print(','.join({'x','y','zz'}))"], env=dict(os.environ, PYTHONHASHSEED=str(seed)), capture_output=True, text=True).stdout.strip()
        found.setdefault(out, seed)
        if len(found) == 6:
            break
    return found


def process_leg(bases_, res, extra_seed):
    orders = seeds_for_all_orders()
    res.coverage['set_orders_covered'] = len(orders)
    seeds = sorted(set(orders.values()) | {extra_seed % 4096})
    descs = [{k: v for k, v in b.items()} for b in bases_]
    ref = None
    procs = []
    for seed in seeds:
        p = subprocess.Popen([sys.executable, '-m', 'tcv.worker'], stdin=subprocess.PIPE, stdout=subprocess.PIPE, stderr=subprocess.PIPE, text=True, cwd=VERIF_DIR,
                             env=dict(os.environ, PYTHONHASHSEED=str(seed), PYTHONPATH=VERIF_DIR))
        p.stdin.write(json.dumps({'op': 'paths', 'descs': descs}))
        p.stdin.close()
        procs.append((seed, p))
    results = {}
    for seed, p in procs:
        out = p.stdout.read()
        p.wait(300)
        if p.returncode != 0:
            raise HarnessError(f'worker (seed {seed}) failed: {p.stderr.read()[-800:]}')
        results[seed] = json.loads(out)
    s0 = seeds[0]
    for seed in seeds[1:]:
        for b, v0, v1 in zip(bases_, results[s0]['results'], results[seed]['results']):
            res.add('transitions')
            res.add('evaluations')
            if v0 != v1:
                diff = {k: (v0.get(k), v1.get(k)) for k in set(v0) | set(v1) if v0.get(k) != v1.get(k)}
                res.violations.append(Violation(f'{b["name"]}: storage location changes under another interpreter / PYTHONHASHSEED',
                                                f'seed {s0} (set order {results[s0]["set_order"]}) vs seed {seed} (set order {results[seed]["set_order"]}): {dict(list(diff.items())[:2])}',
                                                {'base': b['name'], 'seeds': [s0, seed]}))
    res.coverage['interpreters'] = len(seeds)


def run(tier, seed):
    import tcv

    tcv.quiet_library()
    res = Result()
    depth = 2 if tier == 'quick' else 3
    bs = bases(tier)
    per = {}
    for b in bs:
        d_ = depth if (tier != 'quick' or b['name'] in ('chain3', 'mount2', 'pvals-nested', 'pvals-placeholder')) else 1
        if tier != 'quick' and b['name'] not in ('chain3', 'mount2', 'parts', 'pvals-nested', 'pvals-placeholder', 'pvals-auto-list'):
            d_ = 2
        before = res.coverage.get('states', 0)
        explore(b, d_, res)
        per[b['name']] = {'depth': d_, 'nodes': res.coverage['states'] - before}
    res.coverage['per_base'] = per
    process_leg(bs, res, seed)
    # task classes with module-derived groups spread over two modules: the location of each task is the same for every order in
    # which the classes are declared or first touched in the process
    from tcv import modgroups, scratch
    mroot = scratch.fresh('c02mg')
    seen = {}
    for order, touch in modgroups.cases():
        res.add('evaluations')
        res.add('transitions')
        try:
            got = modgroups.observe(mroot, order, touch)
        except Exception as e:  # noqa
            res.violations.append(Violation('module groups: chain cannot be built', f'{order} {touch}: {type(e).__name__}: {e}', {'kind': 'module-groups', 'order': list(order), 'touch': list(touch)}))
            continue
        for name, g in got.items():
            first = seen.setdefault(name, (g[2], order, touch))
            if first[0] != g[2]:
                res.violations.append(Violation('module groups: storage location depends on the order in which task classes are declared / first used',
                                                f'{name}: {first[0]} (order {first[1]}, touched first {first[2]}) vs {g[2]} (order {order}, touched first {touch})',
                                                {'kind': 'module-groups', 'order': list(order), 'touch': list(touch)}))
    scratch.drop(mroot)
    for kind, msg in ignored_objects_scenario():
        res.violations.append(Violation(kind, msg, {'kind': 'ignored-objects'}))
    res.add('evaluations', 25)
    res.coverage['traces_validated_against_impl'] = res.coverage['evaluations']
    res.coverage['exhaustive'] = True
    res.coverage['rule'] = (f'BFS over the rewrite graph of {len(REWRITINGS)} computation-preserving rewritings from each base configuration (compositions up to the per-base depth), invariant on every edge: '
                            'relative storage paths of corresponding tasks equal; plus every base built in fresh interpreters, one PYTHONHASHSEED per iteration order of a 3-element str set + the '
                            'VERIF_SEED-derived seed; distinct_nontrivial = rewritten configurations')
    res.sample({'base': bs[0]['name'], 'rewritings': [r.__name__ for r in REWRITINGS]})
    res.assumptions += ['rewritings are computation-preserving by construction (reference descriptor unchanged is asserted for a sample)', 'global context entries apply to every namespace, so wrapping leaves them global']
    return res


def ignored_objects_scenario():
    """objects marked IgnoreForPersistence (a progress bar, a logger) inside an argument of a parameter object do not go into the computation:
    whatever they are, however many, and wherever they sit in the argument - directly, in a list, as a mapping value, in a list inside a mapping,
    in a mapping inside a list, two levels deep - the storage location is the same; a persisted object next to them still counts"""
    from pathlib import Path
    from taskchain import Config, Parameter, Task
    from taskchain.parameter import AutoParameterObject, IgnoreForPersistence
    from tcv import scratch

    class ProgressBar(AutoParameterObject, IgnoreForPersistence):
        def __init__(self, width):
            self.width = width

    class Checkpoint(AutoParameterObject):
        def __init__(self, every):
            self.every = every

    class Trainer(AutoParameterObject):
        def __init__(self, lr, callbacks=None):
            self.lr = lr
            self.callbacks = callbacks

    class Fit(Task):
        class Meta:
            parameters = [Parameter('trainer')]

        def run(self, trainer) -> int:
            return 1

    shapes = {
        'list': lambda cp, bars: [cp] + bars,
        'mapping-values': lambda cp, bars: dict({'cp': cp}, **{f'bar{i}': b for i, b in enumerate(bars)}),
        'list-in-mapping': lambda cp, bars: {'train': [cp] + bars, 'eval': list(bars)},
        'mapping-in-list': lambda cp, bars: [{'cp': cp, **{f'bar{i}': b for i, b in enumerate(bars)}}],
        'two-levels': lambda cp, bars: {'train': {'each': [cp] + bars, 'end': {'bars': list(bars)}}},
    }
    out = []
    root = scratch.fresh('c02i')
    try:
        def key(callbacks):
            return Config(Path(root) / 'd', name='c', data={'tasks': [Fit], 'trainer': Trainer(0.1, callbacks=callbacks)}).chain()['fit'].name_for_persistence
        for sname, shape in shapes.items():
            keys = {desc: key(shape(Checkpoint(5), bars)) for desc, bars in (('no bar', []), ('bar 80', [ProgressBar(80)]), ('bar 40', [ProgressBar(40)]), ('bars 80, 40', [ProgressBar(80), ProgressBar(40)]))}
            if sname in ('list-in-mapping', 'two-levels', 'list'):
                if len(set(keys.values())) != 1:
                    out.append(('ignored-objects: storage location depends on objects marked IgnoreForPersistence', f'callbacks as {sname}: {keys}'))
            elif len({keys['bar 80'], keys['bar 40']}) != 1:
                out.append(('ignored-objects: storage location depends on objects marked IgnoreForPersistence', f'callbacks as {sname}: {keys}'))
            other = key(shape(Checkpoint(6), [ProgressBar(80)]))
            if other == keys['bar 80']:
                out.append(('ignored-objects: a persisted object next to ignored ones does not count', f'callbacks as {sname}: Checkpoint(5) and Checkpoint(6) share {other}'))
    except Exception as e:  # noqa
        out.append(('ignored-objects: chain cannot be built', f'{type(e).__name__}: {e}'))
    finally:
        scratch.drop(root)
    return out


def replay(case):
    import tcv

    tcv.quiet_library()
    if case.get('kind') == 'ignored-objects':
        return [Violation(k, m, case) for k, m in ignored_objects_scenario()]
    if case.get('kind') == 'module-groups':
        from tcv import modgroups, scratch
        mroot = scratch.fresh('c02mg')
        ref = modgroups.observe(mroot, modgroups.ORDERS[0], ())
        got = modgroups.observe(mroot, tuple(case['order']), tuple(case['touch']))
        return [Violation('module groups: storage location depends on the order in which task classes are declared / first used', f'{n}: {ref[n][2]} vs {g[2]}', case)
                for n, g in got.items() if n in ref and ref[n][2] != g[2]]
    base = next(b for b in bases('thorough') if b['name'] == case['base'])
    if 'seeds' in case:
        res = Result()
        process_leg([base], res, case['seeds'][1])
        return res.violations
    d = base
    prev = None
    for name in case['path']:
        rw = next(r for r in REWRITINGS if r.__name__ == name)
        prev = d
        d = apply(rw, d)
    va, vb = _eval([prev])[0], _eval([d])[0]
    if va != vb:
        return [Violation(f'{base["name"]}: storage location changes under {case["path"][-1]}', f'{va} vs {vb}', case)]
    return []
