"""Deterministic sharded parallel map over worker processes (fork)."""
import multiprocessing as mp
import os
import sys
import traceback

NPROC = int(os.environ.get('TCV_NPROC', '0')) or min(16, os.cpu_count() or 1)


def _call(args):
    fn, item = args
    try:
        return ('ok', fn(item))
    except BaseException:
        return ('err', traceback.format_exc())
    finally:
        # children created by fork leave via os._exit (no atexit): clean their scratch eagerly
        pass


def _init():
    import atexit
    from tcv import scratch

    # multiprocessing children skip atexit handlers; make sure scratch dirs go away
    import multiprocessing.util as mpu

    def fin():
        if scratch._ROOT and scratch._PID == os.getpid():
            import shutil

            shutil.rmtree(scratch._ROOT, ignore_errors=True)

    mpu.Finalize(None, fin, exitpriority=10)


def pmap(fn, items, nproc=None, chunksize=1):
    """Ordered map. fn must be a module-level function; items picklable. Errors are re-raised as HarnessError."""
    from tcv.core import HarnessError

    items = list(items)
    nproc = nproc or NPROC
    if nproc <= 1 or len(items) <= 1:
        out = []
        for it in items:
            st, val = _call((fn, it))
            if st == 'err':
                raise HarnessError(val)
            out.append(val)
        return out
    from tcv import scratch

    scratch.root()  # workers nest their scratch roots inside this one; it is removed when this process exits
    ctx = mp.get_context('fork')
    with ctx.Pool(min(nproc, len(items)), initializer=_init) as pool:
        res = pool.map(_call, [(fn, it) for it in items], chunksize=chunksize)
    out = []
    for st, val in res:
        if st == 'err':
            raise HarnessError(val)
        out.append(val)
    return out
