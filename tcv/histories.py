"""E2 - explicit-state exploration of operation sequences on real chains over one shared data directory.

A state is the history that reaches it; it is rebuilt by replay on a fresh scratch store (live objects do not copy).
`Exec` runs operations on the real implementation and, in lock step, on `StoreModel` (independent reference for what
must be returned / run / stored). Exploration: level-synchronous BFS, work sharded over processes, canonical-state
merging beyond the stateless depth (DESIGN.md §3 E2, §5.3).
"""
import hashlib
import os
import shutil
from pathlib import Path

from tcv import refmodel, scratch, worlds
from tcv.core import HarnessError, Result, Violation, digest, jdump

INMEM = ('inmemory', 'inmemory_empty')
PERSISTED = lambda kind: kind not in INMEM  # noqa
# data kinds whose VALUE is a reference to the storage location (a directory path): what a holder of the value sees through
# it is whatever the location holds now - replaced by a later forced run from another chain object, or gone after a
# delete_data issued elsewhere. Not a property of forcing / caching; the model follows the store for them.
REFKIND = ('dir', 'dir0', 'continues', 'dirlink')
GONE = 'gone'


# ------------------------------------------------------------------------------------------------ reference
class StoreModel:
    """What the store and the live objects must look like, and what each operation must do. Pure Python over
    refmodel.Model; never looks at the library."""

    def __init__(self, world_desc, modlast, parameter_mode=True):
        self.desc = world_desc
        self.modlast = modlast
        self.parameter_mode = parameter_mode
        self.models = {}
        self.stored = {}  # (local, key) -> gen of the stored result
        self.gens = {}  # (class key, storage key) -> number of runs so far
        self.slots = {}  # slot -> dict(vid, model, mem: {obj: gen}, forced: set(obj))
        self.faults = {}
        self.last_failed = set()  # objects whose latest run attempt failed

    def model(self, vid):
        if vid not in self.models:
            self.models[vid] = refmodel.Model(worlds.apply_variant(self.desc, vid), self.modlast)
        return self.models[vid]

    def skey(self, m, fn):
        """storage key: the parameter/input hash, or - in name mode - the name of the declaring config"""
        return m.key(fn) if self.parameter_mode else m.config_name(m.tasks[fn].mount[1])

    def obj(self, m, fn, slot=None):
        ti = m.tasks[fn]
        if ti.decl.get('data', 'json') in INMEM:
            return ('mem', ti.local, self.skey(m, fn))
        return (ti.local, self.skey(m, fn))

    def lk(self, m, fn):
        return [m.tasks[fn].local, self.skey(m, fn)]

    # operations ------------------------------------------------------------------------------
    def new(self, slot, vid):
        m = self.model(vid)
        self.slots[slot] = {'vid': vid, 'model': m, 'mem': {}, 'forced': set()}
        return {'error': m.error.kind if m.error else None}

    def restart(self):
        self.slots = {}

    def fail(self, cls, kind):
        self.faults.setdefault(cls, []).append(kind)

    def value(self, slot, fn):
        """-> dict(term, gen, runs: [fullname...], error: bool)"""
        s = self.slots[slot]
        m = s['model']
        runs = []
        try:
            gen = self._need(s, m, fn, runs)
        except _ModelFault as f:
            return {'error': True, 'runs': runs, 'run_objs': [self.lk(m, r) for r in runs], 'term': None, 'gen': None, 'fault': str(f)}
        return {'error': False, 'runs': runs, 'run_objs': [self.lk(m, r) for r in runs], 'term': m.term(fn), 'gen': gen}

    def _need(self, s, m, fn, runs):
        o = self.obj(m, fn)
        ti = m.tasks[fn]
        kind = ti.decl.get('data', 'json')
        if o in s['mem']:
            if kind in REFKIND:
                return self.stored.get(o, GONE)
            return s['mem'][o]
        if PERSISTED(kind) and o in self.stored and o not in s['forced']:
            s['mem'][o] = self.stored[o]
            return s['mem'][o]
        # run: inputs are pulled from inside run, in declaration order, depth first
        runs.append(fn)
        ident = (ti.key, self.skey(m, fn)) if PERSISTED(kind) else ('obj', id(s), o)
        gen = self.gens.get(ident, 0)
        self.gens[ident] = gen + 1
        fault = self.faults[ti.key].pop(0) if self.faults.get(ti.key) else None
        if fault in ('raise', 'interrupt'):
            self.last_failed.add(o)
            raise _ModelFault(f'{fn}:{fault}')
        try:
            for tgt in m.requested_inputs(fn):
                self._need(s, m, tgt, runs)
        except _ModelFault:
            self.last_failed.add(o)
            raise
        if fault is not None:
            self.last_failed.add(o)
            raise _ModelFault(f'{fn}:{fault}')
        self.last_failed.discard(o)
        if PERSISTED(kind):
            self.stored[o] = gen
        s['mem'][o] = gen
        if o in s['forced']:
            s['forced'].discard(o)   # "its NEXT value request executes run again, exactly once": the forced computation is done
            s.setdefault('done', set()).add(o)
        return gen

    def tforce(self, slot, fn, delete):
        s = self.slots[slot]
        m = s['model']
        o = self.obj(m, fn)
        if delete:
            self.stored.pop(o, None)
        s['forced'].add(o)
        s.get('done', set()).discard(o)
        s['mem'].pop(o, None)

    def abstract(self):
        """what the reference remembers, up to renaming of generations: part of the canonical state of the explorer. Two histories are
        merged only if the implementation state AND this are equal - otherwise a defect that consists in the implementation
        forgetting something the reference still knows (two reference states, one implementation state) would be merged away"""
        out = []
        for slot, s in sorted(self.slots.items()):
            objs = set(s['mem']) | set(s['forced']) | set(s.get('done', ()))
            out.append((slot, sorted((repr(o), o in s['mem'], s['mem'].get(o) == self.stored.get(o, GONE), o in s['forced'], o in s.get('done', ())) for o in objs)))
        return [out, sorted(repr(o) for o in self.stored), sorted(repr(o) for o in self.last_failed)]

    def reset(self, slot, fn):
        """Task.reset_data(): the object forgets the value it holds (nothing else)"""
        s = self.slots[slot]
        s['mem'].pop(self.obj(s['model'], fn), None)

    def cforce(self, slot, fns, recompute, delete):
        s = self.slots[slot]
        m = s['model']
        reach = m.closure()
        closure = set()
        for f in fns:
            closure.add(f)
            closure |= {a for a in m.tasks if f in reach[a]}
        for f in closure:
            self.tforce(slot, f, delete)
        runs = []
        if recompute:
            # each forced task is requested once, in an order the statement leaves open
            objs = {}
            for f in sorted(closure):
                objs.setdefault(self.obj(m, f), f)
            return {'closure': closure, 'recompute_objs': objs}
        return {'closure': closure, 'recompute_objs': None}

    def unlink(self, slot, fn):
        s = self.slots[slot]
        self.stored.pop(self.obj(s['model'], fn), None)

    def has_data(self, slot, fn):
        s = self.slots[slot]
        m = s['model']
        if m.tasks[fn].decl.get('data', 'json') in INMEM:
            return False
        return self.obj(m, fn) in self.stored

    def is_forced(self, slot, fn):
        """True / False; None where the statement leaves it open (forced and recomputed since: the mark has done its work)"""
        s = self.slots[slot]
        o = self.obj(s['model'], fn)
        if o in s['forced']:
            return True
        return None if o in s.get('done', ()) else False

    def in_memory(self, slot, fn):
        s = self.slots[slot]
        return self.obj(s['model'], fn) in s['mem']


class _ModelFault(Exception):
    pass


# ------------------------------------------------------------------------------------------------ real execution
_WORLDS = {}


def get_world(desc):
    """one materialised World per (process, descriptor); data directories are per execution"""
    k = (os.getpid(), digest(desc))
    if k not in _WORLDS:
        root = scratch.fresh('world')
        _WORLDS[k] = worlds.World(desc, root)
    return _WORLDS[k]


class Exec:
    def __init__(self, desc, keep=False, records=False, parameter_mode=True):
        self.desc = desc
        self.records = records
        self.parameter_mode = parameter_mode
        self.world = get_world(desc)
        self.world.rt.reset()
        self.world.__dict__.pop('_ctx_memo', None)  # caller-owned context objects live for one history
        self.data_dir = scratch.fresh('data')
        self.model = StoreModel(desc, self.world.modname, parameter_mode)
        self.slots = {}
        self.steps = []
        self.keep = keep

    def close(self):
        self.slots.clear()
        if not self.keep:
            scratch.drop(self.data_dir)
        self._detach_handlers()

    def _detach_handlers(self):
        import logging

        for name, lg in list(logging.Logger.manager.loggerDict.items()):
            if name.startswith('task_') and isinstance(lg, logging.Logger):
                for h in list(lg.handlers):
                    if isinstance(h, logging.FileHandler):
                        lg.removeHandler(h)
                        h.close()

    # ---- one step: returns (obs, exp)
    def step(self, op):
        rt = self.world.rt
        mark = len(rt.log)
        kind = op[0]
        obs, exp = {'op': op}, {}
        if kind == 'new':
            _, slot, vid = op
            exp = self.model.new(slot, vid)
            try:
                self.slots[slot] = self.world.chain(vid, base_dir=self.data_dir, parameter_mode=self.parameter_mode)
                obs['error'] = None
            except Exception as e:  # noqa
                self.slots.pop(slot, None)
                obs['error'] = f'{type(e).__name__}: {e}'
        elif kind == 'restart':
            self.slots.clear()
            self.model.restart()
            self._detach_handlers()
        elif kind == 'fail':
            _, cls, fk = op
            rt.faults.setdefault(cls, []).append(fk)
            self.model.fail(cls, fk)
        elif kind == 'value':
            _, slot, fn = op
            exp = self.model.value(slot, fn)
            if slot not in self.slots:
                raise HarnessError(f'history requests a value from slot {slot} whose construction failed: {[o.get("error") for o, _ in self.steps]}')
            t = self.slots[slot].tasks[fn]
            try:
                v = t.value
                kindd = self.model.slots[slot]['model'].tasks[fn].decl.get('data', 'json')
                if exp.get('gen') == GONE:
                    # a directory value held in memory whose directory was deleted through another chain object
                    obs.update(term=exp['term'], gen=GONE, error=None)
                else:
                    p = self.world.decode(v, kindd)
                    obs.update(term=p['term'], gen=p['gen'], error=None)
            except (worlds.Fault, worlds.Interrupt) as e:
                obs.update(term=None, gen=None, error=f'Fault: {e}', fault=True)
            except Exception as e:  # noqa
                import traceback

                obs.update(term=None, gen=None, error=f'{type(e).__name__}: {e}', fault=False, tb=traceback.format_exc()[-1500:])
        elif kind == 'reset':
            _, slot, fn = op
            self.model.reset(slot, fn)
            try:
                self.slots[slot].tasks[fn].reset_data()
                obs['error'] = None
            except Exception as e:  # noqa
                obs['error'] = f'{type(e).__name__}: {e}'
        elif kind == 'tforce':
            _, slot, fn, delete = op
            self.model.tforce(slot, fn, delete)
            try:
                self.slots[slot].tasks[fn].force(delete_data=delete)
                obs['error'] = None
            except Exception as e:  # noqa
                obs['error'] = f'{type(e).__name__}: {e}'
        elif kind == 'cforce':
            _, slot, fns, recompute, delete = op
            exp = self.model.cforce(slot, fns, recompute, delete)
            try:
                self.slots[slot].force(list(fns), recompute=recompute, delete_data=delete)
                obs['error'] = None
            except Exception as e:  # noqa
                obs['error'] = f'{type(e).__name__}: {e}'
            if recompute:
                # the model replays the recompute in the order the implementation chose (any order is allowed)
                order = [r[0] for r in rt.log[mark:]]
                exp['recompute_runs'] = self._model_recompute(slot, exp, order)
        elif kind == 'unlink':
            # environment action: somebody removes a stored result from the data directory (not through the library)
            _, slot, fn = op
            self.model.unlink(slot, fn)
            p = self.slots[slot].tasks[fn].data_path
            if p is not None and (p.exists() or p.is_symlink()):
                if p.is_dir():
                    shutil.rmtree(p)
                else:
                    p.unlink()
        elif kind == 'inspect':
            _, slot = op
            ch = self.slots[slot]
            obs['has_data'] = {}
            obs['forced'] = {}
            exp['has_data'] = {}
            exp['forced'] = {}
            obs['error'] = None
            try:
                for fn, t in ch.tasks.items():
                    exp['has_data'][fn] = self.model.has_data(slot, fn)
                    exp['forced'][fn] = self.model.is_forced(slot, fn)
                    obs['has_data'][fn] = bool(t.has_data)
                    obs['forced'][fn] = bool(t.is_forced)
                    _ = t.data_path
                    _ = t.run_info
                    _ = t.log
                _ = ch.tasks_df
                _ = fn in ch
                ch.create_readable_filenames()
            except Exception as e:  # noqa
                obs['error'] = f'{type(e).__name__}: {e}'
        else:
            raise HarnessError(f'unknown op {op}')
        # the fault plan is an environment answer owned by the model: keep the real one in step with it so that one
        # divergence is reported once instead of cascading
        rt.faults = {k: list(v) for k, v in self.model.faults.items() if v}
        if self.records and kind in ('value', 'cforce', 'tforce', 'new') and op[1] in self.slots:
            rec = {}
            for fn, t in self.slots[op[1]].tasks.items():
                try:
                    rec[fn] = {'run_info': t.run_info, 'log': t.log}
                except Exception as e:  # noqa
                    rec[fn] = {'error': f'{type(e).__name__}: {e}'}
            obs['records'] = rec
        obs['runs'] = [r[0] for r in rt.log[mark:]]
        obs['run_keys'] = [[r[0], r[1]] for r in rt.log[mark:]]
        # identity of what ran, independent of which of several names a shared task object carries
        obs['run_objs'] = [[r[0].split('::')[-1], r[1]] for r in rt.log[mark:]]
        self.steps.append((obs, exp))
        return obs, exp

    def _model_recompute(self, slot, exp, impl_order):
        """request every forced object once; order follows the implementation's first-run order where possible"""
        s = self.model.slots[slot]
        m = s['model']
        objs = exp['recompute_objs']
        runs = []
        pending = dict(objs)
        by_fn = {}
        for o, f in objs.items():
            by_fn[f] = o
        # implementation order first (maps any alias of the object), then the rest
        seq = []
        for fn in impl_order:
            if fn in m.tasks:
                o = self.model.obj(m, fn)
                if o in pending:
                    seq.append(pending.pop(o))
        seq += [f for o, f in sorted(pending.items(), key=lambda kv: kv[1])]
        err = False
        for f in seq:
            try:
                self.model._need(s, m, f, runs)
            except _ModelFault:
                err = True
                break
        return {'runs': runs, 'error': err}

    # ---- canonical state of the REAL implementation (DESIGN §5.3)
    def canon(self):
        files = []
        base = self.data_dir
        for root, dirs, fnames in os.walk(base, followlinks=False):
            dirs.sort()
            rel = os.path.relpath(root, base)
            if not dirs and not fnames:
                files.append((rel + '/', ''))
            for f in sorted(fnames):
                p = os.path.join(root, f)
                r = os.path.join(rel, f)
                if os.path.islink(p):
                    files.append((r, 'link:' + os.readlink(p)))
                elif f.endswith('.run_info.yaml'):
                    files.append((r, 'runinfo'))
                else:
                    with open(p, 'rb') as fh:
                        files.append((r, hashlib.sha1(fh.read()).hexdigest()[:12]))
        slots = {}
        for slot, ch in sorted(self.slots.items()):
            st = []
            seen = {}
            for fn, t in sorted(ch.tasks.items()):
                st.append((fn, t._data is not None, bool(t._forced), seen.setdefault(id(t), fn), _shallow(t), _shallow(t._data) if t._data is not None else None))
            slots[slot] = (self.model.slots[slot]['vid'], st)
        handlers = self._file_handlers()
        return digest([files, slots, sorted(self.world.rt.faults.items()), handlers, self.model.abstract()])

    def _file_handlers(self):
        import logging

        n = []
        for name, lg in sorted(logging.Logger.manager.loggerDict.items()):
            if name.startswith('task_') and isinstance(lg, logging.Logger):
                c = sum(1 for h in lg.handlers if isinstance(h, logging.FileHandler))
                if c:
                    n.append((name, c))
        return n


def _shallow(o):
    """generic image of an object's instance attributes (primitives by value, the rest by type): hidden per-object state
    added by a change to the library (a cache flag, a counter) keeps states apart instead of being merged away"""
    out = []
    for k, v in sorted(vars(o).items()):
        if k in ('_run_info', 'logger', '_config', '_input_tasks', 'params', 'parameters', 'meta', '_value', '_base_dir', '_dir'):
            continue
        if v is None or isinstance(v, (bool, int, str)):
            out.append((k, repr(v)))
        else:
            out.append((k, type(v).__name__))
    return out


def run_history(desc, hist, judge, keep=False, records=False, parameter_mode=True):
    """Replay `hist` on a fresh store; call judge(step index, obs, exp, exec) after every step.
    -> (violations, canon of final state, observation vector digest)"""
    ex = Exec(desc, keep=keep, records=records, parameter_mode=parameter_mode)
    out = []
    try:
        for i, op in enumerate(hist):
            obs, exp = ex.step(op)
            for v in judge(i, obs, exp, ex) or []:
                out.append(v)
        c = ex.canon()
        ov = digest([[o.get('term'), o.get('error') is not None, o.get('runs'), o.get('has_data')] for o, _ in ex.steps])
    finally:
        ex.close()
    return out, c, ov


# ------------------------------------------------------------------------------------------------ alphabets
def alphabet(desc, hist, spec):
    """operations enabled after `hist` (computed from the history alone, so it is the same in every process).
    spec: dict(slots, variants, tasks: {vid: [fullnames]} | None, ops: set, faults: [(cls, kind)], force_sets: [...])"""
    live = {}
    armed = 0
    for op in hist:
        if op[0] == 'new':
            live[op[1]] = op[2]
        elif op[0] == 'restart':
            live = {}
        elif op[0] == 'fail':
            armed += 1
    # armed faults are consumed by runs; bound the number armed per history instead of tracking consumption
    ops = []
    enabled = spec['ops']
    if 'new' in enabled:
        for slot in range(spec['slots']):
            for vid in spec['variants']:
                ops.append(['new', slot, vid])
    for slot, vid in sorted(live.items()):
        tasks = spec['tasks'][vid]
        if 'value' in enabled:
            for fn in tasks:
                ops.append(['value', slot, fn])
        if 'tforce' in enabled:
            for fn in (spec.get('force_tasks') or {}).get(vid, tasks):
                for delete in spec.get('delete_flags', (False, True)):
                    ops.append(['tforce', slot, fn, delete])
        if 'reset' in enabled:
            for fn in (spec.get('force_tasks') or {}).get(vid, tasks):
                ops.append(['reset', slot, fn])
        if 'cforce' in enabled:
            for fns in spec['force_sets'][vid]:
                for rec, dele in spec.get('cforce_flags', ((False, False), (True, False), (False, True), (True, True))):
                    ops.append(['cforce', slot, list(fns), rec, dele])
        if 'inspect' in enabled:
            ops.append(['inspect', slot])
    if 'fail' in enabled and armed < spec.get('max_faults', 1):
        for cls, kind in spec['faults']:
            ops.append(['fail', cls, kind])
    if 'restart' in enabled and live:
        ops.append(['restart'])
    return ops


# ------------------------------------------------------------------------------------------------ exploration
def _expand(args):
    """worker: execute hist+[op] for every op of the alphabet; -> list of (hist2, canon, obsvec, violations-json)"""
    import tcv

    tcv.quiet_library()
    desc, spec, hists, judge_name = args
    judge = _resolve(judge_name)
    out = []
    for hist in hists:
        for op in alphabet(desc, hist, spec):
            h2 = hist + [op]
            vs, c, ov = run_history(desc, h2, judge(desc, spec), records=bool(spec.get('records')), parameter_mode=spec.get('parameter_mode', True))
            out.append((h2, c, ov, [v.to_json() for v in vs]))
    return out


def _resolve(name):
    import importlib

    mod, attr = name.rsplit(':', 1)
    return getattr(importlib.import_module(mod), attr)


def _last_obs(desc, spec, hist):
    ex = Exec(desc, records=False, parameter_mode=spec.get('parameter_mode', True))
    try:
        for op in hist:
            obs, exp = ex.step(op)
        return [obs.get('term'), obs.get('error') is not None, obs.get('run_objs'), obs.get('has_data'), obs.get('forced'), ex.canon()]
    finally:
        ex.close()


def _crosscheck(args):
    """DESIGN 5.3: a history that was merged into a representative (same canonical state) must have the same one-step
    futures: every operation of the alphabet is executed after both and the observations are compared"""
    import tcv

    tcv.quiet_library()
    desc, spec, pairs = args
    bad = []
    n = 0
    for h, rep in pairs:
        for op in alphabet(desc, h, spec):
            if op not in alphabet(desc, rep, spec):
                bad.append(f'alphabets differ after {h} vs {rep}: {op}')
                continue
            a, b = _last_obs(desc, spec, h + [op]), _last_obs(desc, spec, rep + [op])
            n += 1
            if a != b:
                bad.append(f'merged histories {h} and {rep} differ on {op}: {a} vs {b}')
    return n, bad[:3]


def explore(desc, spec, judge_name, stateless_depth, merged_depth, seed=0, max_states=None, crosscheck=None):
    """BFS. Levels <= stateless_depth keep every history (no merging); deeper levels keep one representative per
    canonical state. Returns Result with states/transitions/etc."""
    from tcv.pool import NPROC, pmap

    res = Result()
    frontier = [[]]
    seen = set()
    rep = {}
    merged_pairs = []
    obsvecs = set()
    capped = False
    depth_done = 0
    for depth in range(1, merged_depth + 1):
        if not frontier:
            break
        # shard deterministically
        k = seed % len(frontier)
        frontier = frontier[k:] + frontier[:k]
        n = max(1, min(len(frontier), NPROC * 4))
        shards = [frontier[i::n] for i in range(n)]
        outs = pmap(_expand, [(desc, spec, sh, judge_name) for sh in shards if sh])
        nxt = []
        for out in outs:
            for h2, c, ov, vs in out:
                res.add('transitions', len(h2))  # every step of the replay ran on the real code
                res.add('executions')
                obsvecs.add(ov)
                for v in vs:
                    res.violations.append(Violation(v['signature'], v['what'], v['case']))
                new_state = c not in seen
                seen.add(c)
                if new_state:
                    rep[c] = h2
                elif depth >= stateless_depth and not vs and rep[c] != h2:
                    merged_pairs.append((h2, rep[c]))
                keep = depth < stateless_depth or new_state
                if keep and depth < merged_depth:
                    nxt.append(h2)
        depth_done = depth
        nxt.sort(key=jdump)
        if max_states and len(seen) > max_states:
            capped = True
            break
        frontier = nxt
        if len(res.violations) > 200:
            break
    # soundness cross-check of the canonical-state merging on a deterministic selection of merged histories
    if crosscheck is None:
        crosscheck = 40 if os.environ.get('VERIF_TIER') == 'thorough' or merged_depth >= 6 else 5
    if crosscheck and merged_pairs and not res.violations:
        merged_pairs.sort(key=jdump)
        step = max(1, len(merged_pairs) // crosscheck)
        sel = merged_pairs[seed % step::step][:crosscheck]
        nchk = 0
        for n_, bad in pmap(_crosscheck, [(desc, spec, sel[i::16]) for i in range(16) if sel[i::16]]):
            nchk += n_
            for b in bad:
                res.harness_errors.append(f'canonical-state merging unsound ({desc["name"]}): {b}')
        res.coverage['merge_crosschecks'] = nchk
    res.coverage['merged_histories'] = len(merged_pairs)
    res.coverage['states'] = len(seen)
    res.coverage['distinct_observation_vectors'] = len(obsvecs)
    res.coverage['depth_completed'] = depth_done
    res.coverage['capped'] = capped
    return res
