"""Which properties have a registered check, with the text that goes into MANIFEST.json (python -m tcv.registry writes it)."""
import json
import os

from tcv import VERIF_DIR

PY = '/venv/bin/python'

CHECKS = {
    'C10': dict(
        technique='exhaustive enumeration of all name sets (size<=3 quick / <=4 thorough) x all declaration orders x all queries on the real resolver vs a component-wise reference; real-chain leg',
        text='Bounded exhaustive model checking of the real `_find_task_full_name` and the chain/input-registry accessors: every subset of '
             'bounded size of a 40-name universe (nested namespaces, multi-level groups, names that are textual prefixes/suffixes of each '
             'other), in every declaration order, against every short and full query form, compared with an independent resolver on '
             'parsed components. Uniqueness/ambiguity/order-independence are for-all-name-sets statements; the bound covers every '
             'interaction of up to 3 (4) names, which is where textual-vs-structural matching bugs live.',
        note='Trusts the reference resolver in tcv/names.py (40 lines); partial forms are outside the statement. Name sets larger than the bound are not explored.',
        design='DESIGN.md §4 C10',
        engine='enumvals+worlds',
    ),
}

PENDING_REASON = 'check not built yet in this round (planned per DESIGN.md §4; technique applies)'


def manifest():
    props = [json.loads(l) for l in open(os.path.join(VERIF_DIR, 'properties.jsonl'))]
    checks = []
    na = []
    for p in props:
        pid = p['id']
        if pid in CHECKS:
            c = CHECKS[pid]
            checks.append({
                'property_id': pid,
                'quick_cmd': f'{PY} -m tcv check {pid} --tier quick',
                'thorough_cmd': f'{PY} -m tcv check {pid} --tier thorough',
                'evidence_file': f'/verif/evidence/{pid}.json',
                'replay_cmd_template': f'{PY} -m tcv replay {{path}}',
                'engine': c.get('engine', 'tcv'),
                'level_claimed': {'category': 'model_checking', 'text': c['text'], 'design_ref': c['design']},
                'level_note': c['note'],
                'technique': c['technique'],
            })
        else:
            na.append({'property_id': pid, 'reason': PENDING_REASON})
    return {
        'version': 1,
        'setup_cmd': f'{PY} -m tcv selftest',
        'hooks': {
            'guard': 'TASKCHAIN_VERIF',
            'enable': 'no source hooks: every seam is reached by rebinding module attributes from the harness process (DESIGN.md §2); checks import /repo/src directly (editable install), nothing to build',
            'baseline_off_cmd': 'cd /repo && /venv/bin/python -m pytest -ra -q -p no:cacheprovider --timeout=900 --continue-on-collection-errors',
            'source_commits': [],
            'add_only': True,
        },
        'engines': ENGINES,
        'checks': checks,
        'not_applicable': na,
        'notes': 'All checks: bounded exhaustive exploration of the real implementation against independent reference models (tcv/). '
                 'Exit 0 held / 1 VIOLATION / 2 harness error. Known findings in /verif/known_findings.json.',
    }


ENGINES = [
    {'name': 'enumvals', 'path': 'tcv/names.py, tcv/enumvals.py', 'serves_properties': ['C10'], 'kind_free_text': 'bounded exhaustive generators (name sets, values, strings, call spellings)'},
]

if __name__ == '__main__':
    m = manifest()
    with open(os.path.join(VERIF_DIR, 'MANIFEST.json'), 'w') as f:
        json.dump(m, f, indent=1)
        f.write('\n')
    print('wrote MANIFEST.json with', len(m['checks']), 'checks')
