"""Which properties have a registered check, with the text that goes into MANIFEST.json (python -m tcv.registry writes it)."""
import json
import os

from tcv import VERIF_DIR

PY = '/venv/bin/python'

CHECKS = {
    'C10': dict(
        technique='exhaustive enumeration of all name sets (size<=3 quick / <=4 thorough) x all declaration orders x all queries on the real resolver vs a component-wise reference; real-chain leg',
        text='Bounded exhaustive model checking of the real `_find_task_full_name` and the chain/input-registry accessors: every subset of '
             'bounded size of a 40-name universe (nested namespaces, multi-level groups, names that are textual prefixes/suffixes of each '
             'other), in every declaration order, against every short and full query form, compared with an independent resolver on '
             'parsed components. Uniqueness/ambiguity/order-independence are for-all-name-sets statements; the bound covers every '
             'interaction of up to 3 (4) names, which is where textual-vs-structural matching bugs live.',
        note='Trusts the reference resolver in tcv/names.py (40 lines); partial forms are outside the statement. Name sets larger than the bound are not explored.',
        design='DESIGN.md §4 C10',
        engine='enumvals+worlds',
    ),
}

CHECKS.update({
    'C01': dict(
        technique='explicit-state BFS over operation histories (stateless to depth 3, canonical-state-merged deeper) on real chains sharing one store; provenance-term oracle',
        text='Bounded exhaustive exploration of ALL histories of chain constructions from config variants that share one data directory, value requests on every task, '
             'task forcing, injected run failures and restarts, up to a stated depth, on the real library. Every returned value carries a provenance term (task, parameter '
             'values, recursively the input terms) and is compared with an independent evaluation of the requesting chain\'s own configuration, so a stale or foreign '
             'result is never equal to the right one. Worlds cover plain chains, diamonds, the same config file mounted under two namespaces with per-namespace context, '
             'two-level uses, multi-config parts, optional/pattern inputs, config-vs-context values and every storable data class.',
        note='Trusts tcv/refmodel.py (reference evaluator) and the generated run() bodies; pipelines have <= 12 tasks, histories <= 4 (quick) / 5 (thorough) operations, <= 2 live chains; in-process restart (objects dropped), real interpreter restarts only in the process leg.',
        design='DESIGN.md §4 C01', engine='worlds+refmodel+histories'),
    'C04': dict(
        technique='explicit-state BFS over force-free histories; invocation-log delta vs predicted run list after every step',
        text='Bounded exhaustive exploration of all histories of chain construction, value requests, inspection calls and restarts (two live chains over one store) '
             'with, after EVERY step, the invocation log written by the generated run() methods compared to the reference prediction of which computations must run '
             '(memory, store, lazy pull order); construction/inspection must run nothing; no storage location runs twice. Includes lazily pulled inputs, in-memory tasks, '
             'unrelated configs sharing one computation and legitimately empty results.',
        note='Known finding K6 (name mode, configs `exp` / `exp_tmp`, directory result: worlds namemode-exp_tmp-dir only). Trusts tcv/histories.StoreModel; canonical-state merging on the PRODUCT of implementation image and reference state beyond the stateless depth (state includes a generic image of task-object attributes so hidden caches are not merged away).',
        design='DESIGN.md §4 C04', engine='worlds+refmodel+histories'),
    'C17': dict(
        technique='exhaustive enumeration of all worker completion orders (gate controller on the real thread pool) x bounded input family; sequential-map oracle',
        text='For every member of a bounded family (n<=4 quick / 6 thorough, threads 1..4, chunk sizes, sort flag, list/generator input, raising position) EVERY completion '
             'order of the pool workers is enumerated by a controller that decides which in-flight call finishes next on the real parallel_map implementations; result '
             'must equal the sequential map, f called once per element, exceptions propagate. chunked: every (length, size, iterable kind).',
        note='Completion order is owned via gates in the mapped function and a proxy of asyncio.as_completed bound into the library module; OS thread start order inside the pool is not varied (does not affect results once completion order is fixed).',
        design='DESIGN.md §4 C17', engine='gates'),
})

CHECKS.update({
    'C07': dict(
        technique='exhaustive enumeration of all DAGs<=3(4) x forced sets x flags x store states on the real Chain.force, plus explicit-state BFS over force histories; closure/run/generation oracles',
        text='Part A enumerates every labelled DAG on <= 3 (quick) / 4 (thorough) tasks x every non-empty set of named tasks x (recompute, delete_data) x every '
             'present/absent store state x two request orders: fresh chain, Chain.force, then every task requested; is_forced must equal the descendant closure (own Warshall), '
             'delete_data must remove exactly those results, recompute must run each forced task exactly once, forced tasks rerun once and replace the stored result '
             '(generation witness carried in the value), unforced tasks are served from storage. Part B explores histories over {new, value, chain force, task force, inspect, '
             'restart}. Tasks use json/dir/numpy/generator data so directory deletion paths are exercised.',
        note='Known finding K6 (as C04). Trusts tcv/histories.StoreModel and refmodel closures; run order within recompute compared as multiset (unspecified); whether is_forced still shows the mark after the forced computation is done is not compared. Includes reset_data and forcing of shared task objects under other namespaces (c13.namespace_scenarios).',
        design='DESIGN.md §4 C07', engine='worlds+refmodel+histories'),
    'C12': dict(
        technique='exhaustive differential enumeration of every task of a bounded world family against a frozen 1.4.0 reference pinned by golden vectors',
        text='For every task of every variant of the world families (groups none/single/multi-level/module/double-module, nested namespace mounts, all data classes, '
             '~1e3 (quick) / ~1.1e4 (thorough) parameter values incl. objects, Path, placeholders, ignored/default/renamed parameters) the real data_path in parameter and '
             'name mode, and the files on disk after running, are compared with an independent frozen implementation of the release-1.4.0 scheme. The frozen reference is '
             're-validated on every run against ~480 literal golden vectors produced by running the pinned commit.',
        note='Golden vectors come from commit 96fd43d (pinned tree, before fix: commits) via tcv.checks.c12.generate_golden; vectors of configurations the pinned tree computes wrongly (defect D1) are not pinned.',
        design='DESIGN.md §4 C12', engine='worlds+refmodel'),
})

CHECKS.update({
    'C18': dict(
        technique='explicit-state BFS over histories with successful/failing runs, retries and forced recomputations in one process; run-info/log oracle per stored result',
        text='Bounded exhaustive exploration of all histories over {new(variant), value, task force, fail(task, raise | raise-after-logging | wrong-type)} within one process; '
             'after every step, for every task with a stored result, the run info (task, every parameter representation, input-task keys, config, user records) must be exactly '
             'that of the generation that produced the stored value, and after every successful run the log must hold exactly that run\'s messages. A focused slice on one task '
             'reaches depth 6 so that success / force / failing recomputation / retry sequences are covered.',
        note='Includes a nested run of a same-named task in another namespace. Timestamps, user name and version are not compared; the log of a task whose latest attempt failed is not constrained (statement speaks of successful runs).',
        design='DESIGN.md §4 C18', engine='worlds+refmodel+histories'),
})

CHECKS.update({
    'C11': dict(
        technique='exhaustive enumeration of all strings <= 5 (7) over a 6-letter alphabet x global_vars menu x container positions on the real substitution, vs an independent tokenizer; Config/Context leg',
        text='Every string of length <= 5 (quick) / 7 (thorough) over {"{","}",A,B,x,space} plus newline/long-name/unicode cases, under 11 global_vars (dicts, object, module, '
             'values that themselves contain braces), alone and inside five list/dict container shapes to depth 3, is sent through the real search_and_replace_placeholders and '
             'compared with an independent left-to-right tokenizer; also idempotence (same object on re-application), identity of non-strings, str-like behaviour, and repr of '
             'the string and of copy/deepcopy of it and of its container. Part B checks parameter values vs persistence representations, config `uses`, context values, '
             'context `uses` (string / list / namespaced / nested) and object-definition arguments through real Config/Context/Chain objects.',
        note='Trusts the 25-line tokenizer refmodel.substitute, which follows the statement literally (a `{NAME}` is found wherever it stands, also behind another brace); tuples / sets and names containing braces are outside the stated domain.',
        design='DESIGN.md §4 C11', engine='enumvals+worlds+refmodel'),
})

CHECKS.update({
    'C16': dict(
        technique='exhaustive enumeration of 27 signature shapes x all bindings over a small value set x all call spellings on the real decorator; dict-model histories over control keywords',
        text='For each of 27 method signatures (0-2 positional, 0-2 defaulted, keyword-only absent/defaulted/required) every binding over 5 (quick) / 6 (thorough) JSON-distinguishable '
             'values with <= 2 distinct values per call is issued in EVERY spelling (positional prefix, all keyword orders, defaults omitted or spelled out, equal dicts in another key '
             'order); the method must execute exactly once per distinct non-ignored binding, every spelling must return the value the method computes from the bound arguments, '
             'entry counts must match. ignore_kwargs subsets, bare/called decorator, own in-memory cache, own JsonCache and explicit cache objects, two methods and three versions on '
             'one object; all histories of depth <= 3 (4) over {plain, force_cache, only_cache, store_cache_value, force+store} x 2 bindings against a dictionary model.',
        note='Values are JSON-distinguishable by construction; custom key functions are not enumerated.',
        design='DESIGN.md §4 C16', engine='enumvals'),
})

CHECKS.update({
    'C14': dict(
        technique='explicit-state BFS over cache operation + damage histories merged on directory bytes, dictionary model in lock step; exhaustive byte-prefix truncation of every stored file',
        text='Per cache type (JsonCache, JsonCache(allow_nones=False), NumpyArrayCache, DataFrameCache): breadth-first exploration of all histories over {get, get_or_compute, forced, raising '
             'computer} x {instance, second instance on the same directory, sub-cache} x 2 keys x 2 values interleaved with {delete, empty, garbage, other-shape, other-key} damage, states '
             'merged on the bytes of the cache directory (the merge is cross-checked against the model: same bytes must mean same model), until the reachable state space closes or the '
             'depth bound is hit; every proper byte prefix of every stored file of every domain value must read as absent and be repaired by exactly one recomputation; a unicode key '
             'menu and all domain values round-trip type-strictly across instances and sub-caches.',
        note='Dictionary model in tcv/checks/c14.py; a pickle in place of an .npy file is not damage (np.load(allow_pickle) reads it); values the serializer rejects are outside the statement.',
        design='DESIGN.md §4 C14', engine='c14'),
})

CHECKS.update({
    'C15': dict(
        technique='stateless DFS over all schedules with bounded preemptions of 2-3 callers (threads, and again as forked processes) of the real FileCache at lock/file-operation granularity',
        text='Two to three real callers of FileCache.get / get_or_compute (own cache instances, one directory, one key; forced writers overlapping readers; a late caller that starts '
             'after another has returned) run as real threads under a cooperative scheduler that owns every lock acquire/release, exists, open, read, truncating open, half-write, close, '
             'unlink and compute step. ALL schedules with <= 2 (quick) / 3-4 (thorough) preemptions are executed; per schedule: every call returns a value some completed computation produced '
             '(get may say NO_VALUE), nobody fails because of another\'s write, compute+save regions never overlap, the entry at quiescence is the last writer\'s complete value, a late '
             'caller does not recompute unless a write overlapped it, no deadlock. Whether an acquire is enabled is decided by a non-blocking probe of the real lock file as it is on disk (so unlinking / re-creating the lock file has its real effect) and the real FileLock is taken with timeout=0 on every grant; JSON, numpy and DataFrame caches; a vacuity counter '
             'requires schedules in which a reader really sits inside a write window; sampled schedules are replayed twice. Process legs: the same harnesses are explored again with every caller in '
             'its own forked process (ProcRun: each visible operation is announced over a pipe and performed after the scheduler process says go; the lock is the operating system\'s lock '
             'between processes; nothing in Python is shared), bound 1-2 (quick) / 2-4 (thorough). The lock object handed to the library wraps whatever taskchain.cache.FileLock is in the tree under test and delegates to it (try-acquire included). Judged to the letter: a caller that starts after another call has returned never recomputes unless forced, a get that starts then finds the value. Extra harnesses: H10 lock hand-over A -> reader -> B (bound 4), H9 two different keys of one bucket directory.',
        note='Steps between two visible operations are atomic. Preemption bound, not full interleaving space. Process legs use smaller bounds than thread legs.',
        design='DESIGN.md §4 C15', engine='sched'),
})

CHECKS.update({
    'C05': dict(
        technique='exhaustive crash-point and torn-write enumeration of the recorded real save path (in-situ process-death injection with tree-digest conformance check) + fault-sequence enumeration; real recovery path as oracle',
        text='For every storable data class (4 quick / 10 thorough) x {first computation, forced recomputation over an existing result} the real compute+save path is recorded as a log of '
             'file-system operations (mkdir, truncating open, every write, rename, unlink, rmdir; rmtree/move decomposed into primitives) - 30-150 operations per scenario including the '
             'log and run-info writes. The scenario is then re-executed once per crash point: process death immediately before each operation and after every proper prefix of every '
             'write (all prefixes <= 64 units, else 1, n/2, n-1); after each, a new chain must find either nothing (and recompute) or the complete correct value, the request must '
             'always recover, and a third chain must load without running. A per-crash-point tree digest must equal the recorded pre-operation digest (catches I/O that bypasses '
             'the interposer). Every scenario is explored under two file models: write-through, and buffered (data handed to write() is lost unless flushed or closed before the crash). Fault sequences (run raises at entry / after partial output, wrong type, unserialisable value, generator raising after k items; singles and pairs; '
             'retry in the same and in a new chain) use the same oracle plus the <key>_error / resumable work-directory clauses.',
        note='Crash = process death (no power-loss block reordering; the library never syncs). H5Data / FigureData not covered (C-level I/O outside the interposer). Directory outputs carry an attempt-specific file so that leftovers of dead attempts are visible.',
        design='DESIGN.md §4 C05', engine='fsops+worlds'),
})

CHECKS.update({
    'C13': dict(
        technique='exhaustive enumeration of config lists (pairs/triples of variants of 6 pipelines) + all MultiChain histories to depth 3 (4); descriptor-identity oracle',
        text='Every pair (quick) and triple (thorough) of variants of six pipelines is built as one MultiChain on the real library: each member must equal the standalone chain of its config '
             '(tasks, storage paths, parameter values); for every pair of tasks of different members: one shared object iff the reference computation descriptors are equal, and the registry '
             'holds exactly the distinct computations. All histories up to the depth over {value(member, task), MultiChain.force(task), restart}: returned values are the member\'s own '
             'reference values, a value obtained through one member costs the others zero runs, forcing marks the closure in every member.',
        note='Members are renamed copies of the variant configs (MultiChain requires distinct names); in-memory tasks included.',
        design='DESIGN.md §4 C13', engine='worlds+refmodel'),
})

CHECKS.update({
    'C08': dict(
        technique='exhaustive enumeration of bounded task-class/declaration-form/mounting families on the real Chain constructor vs an independent resolver + Warshall closure',
        text='Edge families: 2-3 (thorough: 4) task classes with every declaration form {none, by class, by name, by group:name, optional by class/name} on every potential edge x group '
             'schemes x {root, `as n`, nested `o::n`}; special family: ~ and ~~ patterns, one file mounted twice, a namespace whose text prefixes a task name (with and without a root-level '
             'homonym), root-level homonyms of namespaced tasks, nested qualified references, exclusion / abstract / wildcard discovery, every declaration order, exclusion in one of two '
             'mountings, self-loop / 2-cycle / 3-cycle / pattern self-match / dangling required and optional inputs; each in parameter and name mode. Oracle: chain.tasks, graph edges and '
             'input registries on task objects, required_tasks / dependent_tasks / is_task_dependent_on for all pairs == independent resolver + Warshall on the quotient by legitimately '
             'shared objects; invalid declarations must raise a deliberate exception (not RecursionError/AttributeError/TypeError) and yield no chain.',
        note='Duplicate-input and ambiguous-input configurations and absolute reference spellings are outside the statement and skipped (counted in evidence).',
        design='DESIGN.md §4 C08', engine='worlds+refmodel'),
})

CHECKS.update({
    'C09': dict(
        technique='exhaustive enumeration of a bounded family of config trees x namespace shapes x media x context shapes on the real Config/Context/Chain vs an independent precedence evaluator; aliasing probes',
        text='Three-level config trees (root -> used -> used-by-used) with every combination of plain / `as ns` mounting, JSON / YAML / multi-config-part / inline media, parameters that are '
             'required, defaulted, renamed in the config, typed, and named identically in tasks of different configs, crossed with up to 17 context shapes (dict, JSON file, YAML file, Context '
             'object, lists of two and three, `uses` and `uses .. as` inside contexts, for_namespaces for the exact, the parent and a foreign namespace, global + exact entries, mutable values). '
             'Special cases: missing required value (also with a context that only addresses the parent namespace), wrong dtypes, values that must not travel up or down the uses tree, two '
             'configs declaring one task in one namespace in both `uses` orders, one file mounted twice and nested twice with per-namespace values. Oracle: every task\'s parameter values == '
             'the reference precedence; deliberate errors for invalid configurations; the caller\'s context data unchanged; no mutable container shared between configs or with the context; '
             'polluting one chain\'s config values does not reach a second chain built from the same context.',
        note='Reference precedence in tcv/refmodel.py (flatten_context, effective_values). A context and the contexts it uses defining the same key is excluded (precedence unspecified).',
        design='DESIGN.md §4 C09', engine='worlds+refmodel'),
})

CHECKS.update({
    'C03': dict(
        technique='exhaustive all-pairs injectivity check by bucketing the real storage keys of a bounded family of computations against reference computation descriptors',
        text='The real storage key of every member of a finite family is computed on real chains and bucketed by (task, key); a bucket holding two members with different reference '
             'descriptors is a collision (this decides all N(N-1)/2 pairs). Family: ~3.6e3 (quick) / ~5e4 (thorough) JSON-like values over 21 atoms (incl. quote and separator attack '
             'strings, bool/int/float/None look-alikes) closed under lists and dicts, each in a parameter of the task itself and, through the key chain, of inputs at distance 1 and 2; '
             'values as (nested) arguments of parameter objects; a base/subclass parameter-object pair; two-parameter separator attacks with a not-persisted default; differing wirings '
             '(swapped upstreams through two namespaces, optional/pattern inputs present or absent, diamonds). Collisions are attributed to the key text when the hashed texts coincide.',
        note='sha256[:32] assumed collision-free. Known finding K1 (unescaped quotes in str leaves) is matched by its signature only; any other collision is reported.',
        design='DESIGN.md §4 C03', engine='enumvals+worlds+refmodel'),
})

CHECKS.update({
    'C02': dict(
        technique='explicit-state BFS over the rewrite graph of computation-preserving configuration rewritings (compositions <= 2 quick / 3 thorough), path invariant on every edge; fresh-interpreter leg over all set iteration orders',
        text='From each base configuration (chains, diamond, one file mounted twice with per-namespace context, multi-config parts, two-level uses, and one world per parameter-value shape: '
             'scalars, nested lists/dicts, placeholders, parameter objects with scalar/list/dict/set arguments, hand-written and plain-class objects) a breadth-first search applies 17 '
             'rewritings - rename / move config files, JSON<->YAML, mount under outer namespaces o and o::p, permute tasks/uses lists, mapping keys, object kwargs and dict arguments, Meta '
             'declarations, change an ignored parameter, spell out / omit a not-persisted default, move a value to a dict / file / list context, change the value behind a placeholder, add an '
             'absent optional input - and composes them to depth 2 (3). Every rewriting is first checked against the reference descriptor to be computation-preserving; on every edge the '
             'relative storage path of each corresponding task on the real library must be unchanged. Every base is additionally built in fresh interpreters, one PYTHONHASHSEED per '
             'iteration order of a three-element str set plus the VERIF_SEED-derived one.',
        note='Known findings K2-K4 (set / dict arguments of AutoParameterObject, kwargs order of plain-class objects) are matched by (value shape, rewriting) signatures; everything else is reported.',
        design='DESIGN.md §4 C02', engine='worlds+refmodel+procs'),
})

CHECKS.update({
    'C06': dict(
        technique='exhaustive enumeration of bounded value domains per data class through real tasks; type-strict three-way comparison (built / computed / loaded) and stored-bytes invariance',
        text='Every value of a bounded domain is produced by a real task with its own storage key and compared type-strictly between the value the harness built, the value the computing '
             'chain returned and the value a fresh chain loads; the bytes of the store must be identical before and after loading. Domains: JSON - 37 atoms (64-bit boundary integers, '
             '+-0.0, subnormal/huge floats, unicode incl. U+2028/U+2029/U+0085 and control characters, every falsy value) at top level (per return type) and inside 11 container shapes, 9 unusual '
             'keys, all pairs (thorough: triples); numpy - 17 dtypes x 7 shapes (0-d..3-d, empty) x 3 fills x C/Fortran/strided; DataFrames/Series - 5 index kinds x 3 column-label kinds x '
             '6 dtypes, empty frames, named/unnamed series; generated sequences of 0-3 items (eager and lazy); lists of 0-3 arrays; directory trees.',
        note='Dict key order not compared (sort_keys by design). NaN, >64-bit ints, lone surrogates, non-str keys, object arrays excluded (outside the stated domain). Empty `<key>_tmp` work directories created by inspection are not stored files.',
        design='DESIGN.md §4 C06', engine='enumvals'),
})

CHECKS.update({
    'C19': dict(
        technique='exhaustive differential enumeration of task shapes x mock/parameter assignments: create_test_task / TestChain vs a generated real chain',
        text='Every task shape with 0-2 inputs (by class / by name), 0-2 parameters (required, defaulted, parameter object, chain-aware parameter object) and run by arguments or by registry '
             'access, crossed with mock values {0, "", [1], {"a": None}, None, "v"} per input and parameters given or omitted, is evaluated through create_test_task and through TestChain (mocks '
             'keyed by class or by name) and through a generated real chain whose upstream tasks are constant tasks returning exactly the mock values. Values must agree type-strictly, mocked '
             'tasks must return the supplied value, never run and leave nothing on disk, and a missing input or required parameter must be reported by the constructor.',
        note='Mock value None has no real-chain counterpart and is compared with the directly computed expectation.',
        design='DESIGN.md §4 C19', engine='c19'),
})

CHECKS.update({
    'C20': dict(
        technique='exhaustive enumeration of partially computed name-mode stores x migration call sequences (<= 3) on the real migrate_to_parameter_mode; tree-digest and zero-run oracles',
        text='For each world (chain with file and directory results, diamond, a line with one task per storable data class, two parameterless tasks with equal hashes incl. a directory '
             'result holding a relative symlink to its input, a used config under a namespace, the same task under two namespaces from two files, a non-main part of a multi-config file) '
             'every present/absent subset of name-mode results is prepared, then every sequence of length <= 3 over {migrate(dry=True), migrate(dry=False)} is run. After a real migration the '
             'parameter-mode chain on the target must hold results for exactly the computations that had one, load values equal to the originals and run nothing; the digest of the source tree '
             '(files, directories, contents, links) must be identical before and after every call; a second migration must leave the target unchanged; dry runs must write no file.',
        note='Known finding K5 (inspection creates `<task>/` and `<name>_tmp/` directories in the source) is matched only when the change consists of directories alone; any file change is reported.',
        design='DESIGN.md §4 C20', engine='worlds+refmodel+fsops'),
})

# legs added in the later waves of seeded changes (DESIGN.md §10.5); appended to the level text of the check
ADDENDA = {
    'C04': ' Also: a world with a task returning a data object of its own class, and a task whose data class can be created only inside run (inspection may answer or raise, it never runs anything).',
    'C05': ' Values shrink from attempt to attempt (a leftover of an earlier attempt that is not truncated shows); runs ended by KeyboardInterrupt are among the faults.',
    'C06': ' Rewrite leg: every ordered pair of groups of values that compare equal under == (1 / 1.0 / True, arrays equal in bytes but not in dtype or shape) or differ much in length is stored first / recomputed second at ONE storage location and loaded by a later chain.',
    'C07': ' Two force calls in a row on one chain (every ordered pair of named sets of the 3-task DAGs, first call without flags, second with delete_data / recompute / both): the second call is carried out in full. Also: Chain.force(recompute=True, delete_data=..) in which the run of one forced task fails (all DAGs <= 3 x named sets x failing task x {raise, interrupt}); store states left by a forced recomputation that died before each of its file operations, then force(delete_data=True); MultiChain.force with recompute on shared tasks; names given as str subclasses.',
    'C10': ' Concurrent leg: lookups by two threads on one freshly built chain under a cooperative scheduler with SOURCE-LINE scheduling points in chain.py / task.py, every interleaving with <= 1 (quick) / <= 2 (thorough, first plan) preemptions; answers must equal the sequential ones. Second name universe with leading / trailing underscores and digits. Nested-namespace leg: input task names that textually begin with, or equal, the name of the namespace they live in (`n` / `nx`, `numbers`, `n`), each referenced by full name and every shorter form. Known finding K8 (one pipeline mounted twice with equal values).',
    'C15': ' H11: one cache directory opened as a sub-cache of its parent and directly by path. H12: 2-3 threads on one InMemoryCache reaching the same sub-cache by name, source-line scheduling points in cache.py, preemption bound 2 (3).',
    'C17': ' parallel_map over 16 kinds of iterables (arrays and frames with ambiguous or false truth value, lazily sized collections, views, iterators), both implementations, sequential and threaded path.',
    'C18': ' Worlds include a resumable task that fails part-way and is retried, running totals recorded twice by one run (records are what was added, when it was added), runs ended by KeyboardInterrupt.',
    'C20': ' Directory results holding entries named like the library\'s own temporaries (`*_tmp`, `*_error`, dot files, `*.lock`, top level and nested; every single one and all together) migrate as the same tree byte for byte. Worlds include a config with an explicit name= and two parts of one file mounted under two namespaces; the source directory given as target under five spellings must be refused / left untouched.',
}

PENDING_REASON = 'check not built yet in this round (planned per DESIGN.md §4; technique applies)'


def manifest():
    props = [json.loads(l) for l in open(os.path.join(VERIF_DIR, 'properties.jsonl'))]
    checks = []
    na = []
    for p in props:
        pid = p['id']
        if pid in CHECKS:
            c = CHECKS[pid]
            checks.append({
                'property_id': pid,
                'quick_cmd': f'{PY} -m tcv check {pid} --tier quick',
                'thorough_cmd': f'{PY} -m tcv check {pid} --tier thorough',
                'evidence_file': f'/verif/evidence/{pid}.json',
                'replay_cmd_template': f'{PY} -m tcv replay {{path}}',
                'engine': c.get('engine', 'tcv'),
                'level_claimed': {'category': 'model_checking', 'text': c['text'] + ADDENDA.get(pid, ''), 'design_ref': c['design']},
                'level_note': c['note'],
                'technique': c['technique'],
            })
        else:
            na.append({'property_id': pid, 'reason': PENDING_REASON})
    return {
        'version': 1,
        'setup_cmd': f'{PY} -m tcv selftest',
        'hooks': {
            'guard': 'TASKCHAIN_VERIF',
            'enable': 'no source hooks: every seam is reached by rebinding module attributes from the harness process (DESIGN.md §2); checks import /repo/src directly (editable install), nothing to build',
            'baseline_off_cmd': 'cd /repo && /venv/bin/python -m pytest -ra -q -p no:cacheprovider --timeout=900 --continue-on-collection-errors',
            'source_commits': [],
            'add_only': True,
        },
        'engines': ENGINES,
        'checks': checks,
        'not_applicable': na,
        'notes': 'All checks: bounded exhaustive exploration of the real implementation against independent reference models (tcv/). '
                 'Exit 0 held / 1 VIOLATION / 2 harness error. Known findings in /verif/known_findings.json.',
    }


ENGINES = [
    {'name': 'procs', 'path': 'tcv/worker.py', 'serves_properties': ['C02'], 'kind_free_text': 'fresh-interpreter worker (chosen PYTHONHASHSEED) for real process boundaries'},
    {'name': 'fsops', 'path': 'tcv/fsops.py', 'serves_properties': ['C05', 'C20'], 'kind_free_text': 'file-system operation interposer: op log, in-situ crash injection, torn writes, tree-digest conformance'},
    {'name': 'sched', 'path': 'tcv/sched.py', 'serves_properties': ['C15', 'C10'], 'kind_free_text': 'cooperative scheduler (callers as threads or as forked processes) with lock/file interposition, optional source-line scheduling points, and preemption-bounded stateless DFS'},
    {'name': 'worlds', 'path': 'tcv/worlds.py, tcv/families.py', 'serves_properties': ['C01', 'C04'], 'kind_free_text': 'generated pipelines/configs/contexts with provenance terms, invocation log, fault plan'},
    {'name': 'refmodel', 'path': 'tcv/refmodel.py', 'serves_properties': ['C01', 'C04'], 'kind_free_text': 'independent reference semantics: mounts, precedence, edges, terms, frozen 1.4.0 key'},
    {'name': 'histories', 'path': 'tcv/histories.py', 'serves_properties': ['C01', 'C04'], 'kind_free_text': 'explicit-state BFS over operation histories with replay on fresh stores and canonical-state merging'},
    {'name': 'gates', 'path': 'tcv/gates.py', 'serves_properties': ['C17'], 'kind_free_text': 'completion-order controller for thread pools, stateless DFS over choice sequences'},
    {'name': 'enumvals', 'path': 'tcv/names.py, tcv/enumvals.py', 'serves_properties': ['C10'], 'kind_free_text': 'bounded exhaustive generators (name sets, values, strings, call spellings)'},
]

if __name__ == '__main__':
    m = manifest()
    with open(os.path.join(VERIF_DIR, 'MANIFEST.json'), 'w') as f:
        json.dump(m, f, indent=1)
        f.write('\n')
    print('wrote MANIFEST.json with', len(m['checks']), 'checks')
