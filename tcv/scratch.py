"""Scratch directories: one root per process under /dev/shm (fallback $TMPDIR), removed at exit. A forked child (pool
worker: leaves through os._exit, no atexit) puts its root INSIDE the root it inherited, so the parent's exit removes it."""
import atexit
import os
import shutil
import tempfile

_ROOT = None
_PID = None


def _base():
    for cand in ('/dev/shm', os.environ.get('TMPDIR') or tempfile.gettempdir()):
        if cand and os.path.isdir(cand) and os.access(cand, os.W_OK):
            return cand
    return tempfile.gettempdir()


def root() -> str:
    global _ROOT, _PID
    if _ROOT is None or _PID != os.getpid():
        parent = _ROOT if (_ROOT is not None and os.path.isdir(_ROOT)) else None
        _PID = os.getpid()
        _ROOT = tempfile.mkdtemp(prefix=f'tcv-{_PID}-', dir=parent or _base())
        atexit.register(_cleanup, _ROOT, _PID)
    return _ROOT


def _cleanup(path, pid):
    if os.getpid() == pid:
        shutil.rmtree(path, ignore_errors=True)


_counter = 0


def fresh(prefix='s') -> str:
    global _counter
    _counter += 1
    d = os.path.join(root(), f'{prefix}{_counter}')
    os.makedirs(d)
    return d


def drop(path):
    shutil.rmtree(path, ignore_errors=True)


class Scratch:
    def __init__(self, prefix='s'):
        self.prefix = prefix

    def __enter__(self):
        self.path = fresh(self.prefix)
        return self.path

    def __exit__(self, *a):
        drop(self.path)
