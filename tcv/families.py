"""Hand-picked world descriptors shared by several properties (DESIGN.md §4). Each has 2-4 variants that differ in exactly
one place, so that a wrong answer is always a *plausible* stored result."""


def P(name, **kw):
    return dict(name=name, **kw)


def by_class(ref):
    return {'how': 'class', 'ref': ref}


def by_name(ref):
    return {'how': 'name', 'ref': ref}


def chain3(kinds=('json', 'json', 'json'), run='registry'):
    return {
        'name': 'chain3',
        'tasks': {
            'A': {'params': [P('pa')], 'inputs': [], 'data': kinds[0], 'run': run},
            'B': {'params': [P('pb', default=7)], 'inputs': [by_class('A')], 'data': kinds[1], 'run': run},
            'C': {'params': [P('pc', default='z')], 'inputs': [by_class('B')], 'data': kinds[2], 'run': run},
        },
        'configs': {'root': {'medium': 'json', 'tasks': ['A', 'B', 'C'], 'values': {'pa': 1}}},
        'root': 'root',
        'variants': {
            'v0': [],
            'v1': [[['configs', 'root', 'values', 'pa'], 2]],
            'v2': [[['configs', 'root', 'values', 'pc'], 'y']],
            'v3': [[['configs', 'root', 'values', 'pb'], 8]],
            'vnull': [[['configs', 'root', 'values', 'pb'], None]],   # explicit null overrides the default 7
        },
    }


def longval():
    """a parameter value whose representation is long (400 ids); variants differ in ONE element in the middle / at the ends"""
    ids = list(range(1000, 1400))
    mid = list(ids)
    mid[200] = 9999
    head = list(ids)
    head[0] = 9999
    return {
        'name': 'longval',
        'tasks': {
            'A': {'params': [P('ids')], 'inputs': [], 'data': 'json'},
            'B': {'params': [P('text', default='t')], 'inputs': [by_class('A')], 'data': 'json'},
        },
        'configs': {'root': {'medium': 'json', 'tasks': ['A', 'B'], 'values': {'ids': ids}}},
        'root': 'root',
        'variants': {'v0': [], 'vmid': [[['configs', 'root', 'values', 'ids'], mid]], 'vhead': [[['configs', 'root', 'values', 'ids'], head]],
                     'vtext': [[['configs', 'root', 'values', 'text'], 'x' * 600 + 'M' + 'x' * 600]], 'vtext2': [[['configs', 'root', 'values', 'text'], 'x' * 600 + 'N' + 'x' * 600]]},
    }


def diamond(run='args'):
    return {
        'name': 'diamond',
        'tasks': {
            'A': {'params': [P('pa')], 'inputs': [], 'data': 'json', 'run': run},
            'B': {'params': [P('pb', default=0)], 'inputs': [by_class('A')], 'data': 'numpy', 'run': run},
            'C': {'params': [], 'inputs': [by_name('a')], 'data': 'generator', 'run': run},
            'D': {'params': [], 'inputs': [by_class('B'), by_class('C')], 'data': 'json', 'run': run},
        },
        'configs': {'root': {'medium': 'yaml', 'tasks': ['<mod>.*'], 'values': {'pa': 'x'}}},
        'root': 'root',
        'variants': {
            'v0': [],
            'v1': [[['configs', 'root', 'values', 'pa'], 'y']],
            'v2': [[['configs', 'root', 'values', 'pb'], 1]],
        },
    }


def mount2(n1='n1', n2='n2', name='mount2'):
    """one config FILE {x -> y} mounted `as n1` and `as n2` under a root task z reading n1::y and n2::y; variants set the
    per-namespace context values."""
    def ctx(v1, v2, glob=None):
        c = {'kind': 'dict', 'data': {} if glob is None else {'px': glob}, 'for_namespaces': {}}
        if v1 is not None:
            c['for_namespaces'][n1] = {'px': v1}
        if v2 is not None:
            c['for_namespaces'][n2] = {'px': v2}
        return c
    return {
        'name': name,
        'tasks': {
            'X': {'params': [P('px', default=0)], 'inputs': [], 'data': 'json'},
            'Y': {'params': [], 'inputs': [by_class('X')], 'data': 'json'},
            'Z': {'params': [], 'inputs': [by_name(f'{n1}::y'), by_name(f'{n2}::y')], 'data': 'json'},
        },
        'configs': {
            'root': {'medium': 'json', 'tasks': ['Z'], 'values': {}, 'uses': [{'config': 'sub', 'as': n1}, {'config': 'sub', 'as': n2}]},
            'sub': {'medium': 'json', 'tasks': ['X', 'Y'], 'values': {}},
        },
        'root': 'root',
        'context': ctx(1, 1),
        'variants': {
            'v11': [],
            'v12': [[['context'], ctx(1, 2)]],
            'v21': [[['context'], ctx(2, 1)]],
            'vg': [[['context'], ctx(None, None, glob=1)]],
            'vg2': [[['context'], ctx(None, 2, glob=1)]],
            'v1_': [[['context'], ctx(1, None)]],
            'v_1': [[['context'], ctx(None, 1)]],
        },
    }


def mount2p():
    """as mount2, but one namespace name is a textual prefix of the other (m / m2), and an override for one only"""
    d = mount2('m', 'm2', name='mount2p')
    d['variants'] = {k: d['variants'][k] for k in ('v1_', 'v_1', 'v12', 'v11')}
    return d


def uses2():
    """two-level `uses` without namespace; the variant is in the used config"""
    return {
        'name': 'uses2',
        'tasks': {
            'A': {'params': [P('pa')], 'inputs': [], 'data': 'json'},
            'B': {'params': [P('pb')], 'inputs': [by_class('A')], 'data': 'pandas'},
            'C': {'params': [P('pa')], 'inputs': [by_class('B')], 'data': 'json'},
        },
        'configs': {
            'root': {'medium': 'yaml', 'tasks': ['C'], 'values': {'pa': 'rootval'}, 'uses': [{'config': 'mid'}]},
            'mid': {'medium': 'json', 'tasks': ['B'], 'values': {'pb': 1}, 'uses': [{'config': 'low'}]},
            'low': {'medium': 'yaml', 'dir': 'deep', 'tasks': ['A'], 'values': {'pa': 'lowval'}},
        },
        'root': 'root',
        'variants': {
            'v0': [],
            'v1': [[['configs', 'low', 'values', 'pa'], 'lowval2']],
            'v2': [[['configs', 'mid', 'values', 'pb'], 2]],
            'v3': [[['configs', 'root', 'values', 'pa'], 'rootval2']],
        },
    }


def parts():
    """multi-config file with #part references"""
    return {
        'name': 'parts',
        'tasks': {
            'A': {'params': [P('pa')], 'inputs': [], 'data': 'json'},
            'B': {'params': [P('pb', default=0)], 'inputs': [by_class('A')], 'data': 'json'},
        },
        'configs': {
            'top': {'medium': 'part', 'file': 'multi.yaml', 'ext': 'yaml', 'part': 'top', 'main_part': True, 'tasks': ['B'], 'values': {'pb': 1},
                    'uses': [{'config': 'base'}]},
            'base': {'medium': 'part', 'file': 'multi.yaml', 'ext': 'yaml', 'part': 'base', 'tasks': ['A'], 'values': {'pa': 1}},
        },
        'root': 'top',
        'variants': {
            'v0': [],
            'v1': [[['configs', 'base', 'values', 'pa'], 2]],
            'v2': [[['configs', 'top', 'values', 'pb'], 2]],
        },
    }


def optpat():
    """optional and pattern inputs, present / absent"""
    return {
        'name': 'optpat',
        'tasks': {
            'Fa': {'name': 'f_a', 'params': [P('p', default=0)], 'inputs': [], 'data': 'json'},
            'Fb': {'name': 'f_b', 'params': [P('q', default=0)], 'inputs': [], 'data': 'json'},
            'G': {'name': 'g_opt', 'params': [P('r', default=0)], 'inputs': [], 'data': 'json'},
            'O': {'params': [], 'inputs': [{'how': 'opt_class', 'ref': 'G', 'default': 'none'}, {'how': 'pattern', 'ref': '~f_.*'}], 'data': 'json'},
        },
        'configs': {'root': {'medium': 'json', 'tasks': ['Fa', 'Fb', 'G', 'O'], 'values': {}}},
        'root': 'root',
        'variants': {
            'v0': [],
            'v1': [[['configs', 'root', 'tasks'], ['Fa', 'Fb', 'O']]],
            'v2': [[['configs', 'root', 'tasks'], ['Fa', 'G', 'O']]],
            'v3': [[['configs', 'root', 'values', 'q'], 1]],
            'v4': [[['configs', 'root', 'values', 'r'], 1]],
        },
    }


def ctxmove():
    """same value from config vs context (C02), different value from context (C01)"""
    return {
        'name': 'ctxmove',
        'tasks': {
            'A': {'params': [P('pa')], 'inputs': [], 'data': 'json'},
            'B': {'params': [], 'inputs': [by_class('A')], 'data': 'json'},
        },
        'configs': {'root': {'medium': 'json', 'tasks': ['A', 'B'], 'values': {'pa': 1}}},
        'root': 'root',
        'variants': {
            'v0': [],
            'v1': [[['context'], {'kind': 'dict', 'data': {'pa': 2}}]],
            'v2': [[['context'], {'kind': 'json', 'data': {'pa': 3}}]],
            'v3': [[['context'], {'kind': 'dict', 'data': {'pa': 1}}]],
        },
    }


def ctxshare():
    """contexts are lists of caller-owned dicts that the program keeps and reuses: [BASE, EXTRA], [BASE], [EXTRA] - entries for the
    same namespace with different keys"""
    base = {'kind': 'dict', 'data': {}, 'for_namespaces': {'n': {'pa': 5}}}
    extra = {'kind': 'dict', 'data': {}, 'for_namespaces': {'n': {'pb': 9}}}
    glob = {'kind': 'dict', 'data': {'pb': 3}}
    return {
        'name': 'ctxshare',
        '_shared_ctx_objects': True,
        'tasks': {
            'A': {'params': [P('pa', default=0), P('pb', default=0)], 'inputs': [], 'data': 'json'},
            'B': {'params': [], 'inputs': [by_name('n::a')], 'data': 'json'},
        },
        'configs': {'root': {'medium': 'json', 'tasks': ['B'], 'values': {}, 'uses': [{'config': 'leaf', 'as': 'n'}]},
                    'leaf': {'medium': 'json', 'tasks': ['A'], 'values': {'pa': 1}}},
        'root': 'root',
        'context': {'kind': 'list', 'items': [base]},
        'variants': {
            'vbase': [],
            'vboth': [[['context'], {'kind': 'list', 'items': [base, extra]}]],
            'vextra': [[['context'], {'kind': 'list', 'items': [extra]}]],
            'vglob': [[['context'], {'kind': 'list', 'items': [glob, base]}]],
        },
    }


def types_line():
    """one task per storable data class in a line"""
    kinds = ['json', 'numpy', 'pandas', 'series', 'generator', 'generator_lazy', 'list_of_numpy', 'dir', 'continues', 'json_list', 'inmemory', 'json']
    tasks = {}
    prev = None
    for n, k in enumerate(kinds):
        key = f'T{n}'
        tasks[key] = {'params': [P('p0')] if prev is None else [], 'inputs': [by_class(prev)] if prev else [], 'data': k}
        prev = key
    return {
        'name': 'types',
        'tasks': tasks,
        'configs': {'root': {'medium': 'json', 'tasks': list(tasks), 'values': {'p0': 1}}},
        'root': 'root',
        'variants': {'v0': [], 'v1': [[['configs', 'root', 'values', 'p0'], 2]]},
    }


def parts_ext():
    """a part of a multi-config file named explicitly from OUTSIDE that file; all variants are edits of the same files in place"""
    return {
        'name': 'parts_ext',
        '_shared_cfg': True,
        'tasks': {
            'F': {'name': 'features', 'params': [P('n')], 'inputs': [], 'data': 'json'},
            'M': {'name': 'model', 'params': [P('k', default=1)], 'inputs': [by_name('feats::features')], 'data': 'json'},
        },
        'configs': {
            'root': {'medium': 'json', 'tasks': ['M'], 'values': {}, 'uses': [{'config': 'small', 'as': 'feats'}]},
            'small': {'medium': 'part', 'file': 'library.json', 'ext': 'json', 'part': 'small', 'tasks': ['F'], 'values': {'n': 2}},
            'big': {'medium': 'part', 'file': 'library.json', 'ext': 'json', 'part': 'big', 'main_part': True, 'tasks': ['F'], 'values': {'n': 100}},
        },
        'root': 'root',
        'variants': {'v0': [], 'v1': [[['configs', 'small', 'values', 'n'], 4]], 'v2': [[['configs', 'root', 'values', 'k'], 2]], 'v3': [[['configs', 'small', 'values', 'n'], 6]]},
    }


def optns():
    """a root-level task with an OPTIONAL by-name input that exists only inside a namespace: the default must be used"""
    return {
        'name': 'optns',
        'tasks': {
            'Cal': {'name': 'calibration', 'params': [P('c', default=7)], 'inputs': [], 'data': 'json'},
            'Rep': {'name': 'report', 'params': [P('r', default=1)], 'inputs': [{'how': 'opt_name', 'ref': 'calibration', 'default': 0}], 'data': 'json'},
        },
        'configs': {
            'root': {'medium': 'json', 'tasks': ['Rep'], 'values': {}, 'uses': [{'config': 'aux', 'as': 'aux'}]},
            'aux': {'medium': 'json', 'tasks': ['Cal'], 'values': {}},
            'rootcal': {'medium': 'json', 'tasks': ['Rep', 'Cal'], 'values': {'c': 9}, 'uses': [{'config': 'aux', 'as': 'aux'}]},
        },
        'root': 'root',
        'variants': {'v0': [], 'v1': [[['root'], 'rootcal']], 'v2': [[['configs', 'aux', 'values', 'c'], 8]]},
    }


def namemode(second='exp_big', ckind='dir'):
    """for name mode (results stored under the config's name): two configs of one pipeline whose names extend each other
    (exp / exp_big; or exp / exp_tmp, exp_old, exp_error - names the library itself gives to its temporaries), different
    values, one data directory"""
    return {
        'name': 'namemode',
        'tasks': {
            'A': {'params': [P('pa')], 'inputs': [], 'data': 'json'},
            'B': {'params': [], 'inputs': [by_class('A')], 'data': 'numpy'},
            'C': {'params': [], 'inputs': [by_class('B')], 'data': ckind},
        },
        'configs': {
            'exp': {'medium': 'json', 'file': 'exp.json', 'tasks': ['A', 'B', 'C'], 'values': {'pa': 1}},
            second: {'medium': 'json', 'file': f'{second}.json', 'tasks': ['A', 'B', 'C'], 'values': {'pa': 2}},
        },
        'root': 'exp',
        'variants': {'exp': [], second: [[['root'], second]]},
    }


ALL = {f.__name__: f for f in (ctxshare, namemode, parts_ext, optns, longval, chain3, diamond, mount2, mount2p, uses2, parts, optpat, ctxmove, types_line)}
