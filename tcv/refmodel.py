"""E1 - reference semantics of a world descriptor. Independent of the library: imports nothing from taskchain.

Model(desc_variant) computes mounts, tasks, parameter values (declared precedence), edges, expected construction
errors, provenance terms, the frozen release-1.4.0 storage key / relative path, and a canonical computation
descriptor. See DESIGN.md §3 E1 for the rules; each is a restatement of documented behaviour.
"""
import copy
import hashlib
import re

SEP_NS = '::'


class Expected(Exception):
    """configuration for which chain construction must fail"""

    def __init__(self, kind, msg=''):
        super().__init__(f'{kind}: {msg}')
        self.kind = kind


# ---------------------------------------------------------------------------------------------- names
def slug_of_class(name):
    s = re.sub(r'(?<!^)(?=[A-Z])', '_', name).lower()
    return s[:-5] if s.endswith('_task') else s


def task_local_name(key, t, modname_last=None):
    name = t['name'] if t.get('name') is not None else slug_of_class(key)
    group = t.get('group') or ''
    mg = t.get('module_group')
    if mg in (True, 'module'):
        group = modname_last.split('.')[-1]
    elif mg == 'double':
        group = t.get('group') or ':'.join(modname_last.split('.')[-2:])
    return f'{group}:{name}' if group else name


def full(ns, local):
    return f'{ns}{SEP_NS}{local}' if ns else local


# ---------------------------------------------------------------------------------------------- placeholders
def substitute(text, gv):
    """the statement, read literally and independently of any regular expression: scanning left to right, at every `{` the
    text up to the NEXT `}` is a candidate name; if that name is defined the whole `{name}` is replaced by str(value) and
    scanning goes on behind it, otherwise the `{` stays and scanning goes on with the next character (so a `{NAME}` is found
    wherever it stands, also behind another brace). One pass: replacement text is not scanned again.
    Returns (new text, does the text contain any `{...}` span at all?)"""
    if gv is None:
        return text, False
    out = []
    i = 0
    n = len(text)
    found = False
    while i < n:
        ch = text[i]
        if ch == '{':
            j = text.find('}', i + 1)
            if j != -1:
                name = text[i + 1:j]
                if '\n' not in name:
                    found = True
                if name in gv:
                    out.append(str(gv[name]))
                    i = j + 1
                    continue
        out.append(ch)
        i += 1
    return ''.join(out), found


class PStr(str):
    """a substituted string that remembers its placeholder form (the reference's own notion, not the library's)"""

    def __new__(cls, value, original):
        s = str.__new__(cls, value)
        s.original = original
        return s

    def __deepcopy__(self, memo):
        return PStr(str(self), self.original)


def substitute_deep(v, gv):
    if isinstance(v, PStr):
        return v
    if isinstance(v, str):
        new, found = substitute(v, gv)
        return PStr(new, v) if found else v
    if isinstance(v, list):
        return [substitute_deep(x, gv) for x in v]
    if isinstance(v, dict):
        return {k: substitute_deep(x, gv) for k, x in v.items()}
    return v


# ---------------------------------------------------------------------------------------------- 1.4.0 value text
def vrepr(v):
    """frozen re-implementation of the release-1.4.0 value representation (pinned by /verif/golden)"""
    if isinstance(v, dict) and '__obj__' in v:
        return obj_repr(v)
    if isinstance(v, list):
        return '[' + ', '.join(vrepr(x) for x in v) + ']'
    if isinstance(v, dict):
        return '{' + ', '.join(f'{vrepr(k)}: {vrepr(x)}' for k, x in sorted(v.items())) + '}'
    if isinstance(v, PStr):
        return repr(v.original)
    if isinstance(v, str):
        return "'" + v + "'"
    return repr(v)


def py_repr(v):
    """python repr of a plain value as the parameter object received it (placeholders already substituted)"""
    if isinstance(v, PStr):
        return repr(v.original)
    if isinstance(v, list):
        return '[' + ', '.join(py_repr(x) for x in v) + ']'
    if isinstance(v, tuple):
        return '(' + ', '.join(py_repr(x) for x in v) + (',)' if len(v) == 1 else ')')
    if isinstance(v, dict) and '__obj__' in v:
        return obj_repr(v)
    if isinstance(v, dict):
        return '{' + ', '.join(f'{py_repr(k)}: {py_repr(x)}' for k, x in v.items()) + '}'
    return repr(v)


OBJ_SIGS = {
    # class -> ordered (arg, default|REQUIRED), ignored args, dont-persist-default args, stored under
    'Auto1': dict(args=[('a', None, True), ('b', 0, False), ('verbose', False, False)], ignore={'verbose', 'debug'}, dpdv=set()),
    'Auto2': dict(args=[('a', None, True), ('c', 5, False)], ignore={'verbose', 'debug'}, dpdv={'c'}),
    'Auto3': dict(args=[('a', None, True), ('pad', 0, False)], ignore={'verbose', 'debug'}, dpdv=set()),
    'AutoBoth': dict(args=[('cols', None, True)], ignore={'verbose', 'debug'}, dpdv=set()),
    'AutoRaw': dict(args=[('path', None, True)], ignore={'verbose', 'debug'}, dpdv=set()),
    'AutoTuple': dict(args=[('a', None, True), ('size', (224, 224), False), ('pair', ((1, 'x'), [2, (3,)]), False)], ignore={'verbose', 'debug'}, dpdv=set()),
}


def obj_bind(v):
    """bound constructor arguments of an object definition {__obj__, args?, kwargs?} (for Auto*/Plain1/Hand1)"""
    cls = v['__obj__']
    if cls == 'AutoVar':   # def __init__(self, a, **options)
        kw = dict(v.get('kwargs') or {})
        args = list(v.get('args', []))
        if args:
            kw['a'] = args[0]
        if 'a' not in kw:
            raise Expected('object-missing-arg', 'AutoVar.a')
        return {'a': kw.pop('a'), 'options': kw}
    sig = {'Auto1': [('a', None, True), ('b', 0, False), ('verbose', False, False)],
           'Auto2': [('a', None, True), ('c', 5, False)],
           'Auto3': [('a', None, True), ('pad', 0, False)],
           'AutoSet': [('items', None, True)],
           'AutoBoth': [('cols', None, True)],
           'AutoRaw': [('path', None, True)],
           'AutoTuple': [('a', None, True), ('size', (224, 224), False), ('pair', ((1, 'x'), [2, (3,)]), False)],
           'Plain1': [('a', None, True), ('b', 0, False)],
           'Hand1': [('a', None, True)]}[cls]
    bound = {}
    args = list(v.get('args', []))
    for (name, default, required), val in zip(sig, args):
        bound[name] = val
    for k, val in (v.get('kwargs') or {}).items():
        bound[k] = val
    for name, default, required in sig:
        if name not in bound:
            if required:
                raise Expected('object-missing-arg', f'{cls}.{name}')
            bound[name] = default
    return bound


def obj_repr(v):
    cls = v['__obj__']
    if cls in OBJ_SIGS:
        s = OBJ_SIGS[cls]
        b = obj_bind(v)
        parts = {}
        for name, default, required in s['args']:
            if name in s['ignore']:
                continue
            if name in s['dpdv'] and b[name] == default:
                continue
            parts[name] = b[name]
        return f'{cls}(' + ', '.join(f'{k}={py_repr(x)}' for k, x in sorted(parts.items())) + ')'
    if cls == 'AutoVar':
        b = obj_bind(v)
        return f'AutoVar(a={py_repr(b["a"])}, options={py_repr(b["options"])})'
    if cls == 'Hand1':
        return f'Hand1<{py_repr(obj_bind(v)["a"])}>'
    if cls == 'Plain1':
        # instantiation definition text: "<import string>(<args>, <k=v in written order>)"
        a = ', '.join(vrepr(x) for x in v.get('args', []))
        k = ', '.join(f'{kk}={vrepr(x)}' for kk, x in (v.get('kwargs') or {}).items())
        if a and k:
            a += ', '
        return f'<mod>.Plain1({a}{k})'
    raise ValueError(cls)


def obj_state(v):
    b = obj_bind(v)
    cls = v['__obj__']
    if cls == 'AutoTuple':
        return {'__obj__': cls, 'state': {'a': term_value(b['a']), 'size': repr(b['size']), 'pair': repr(b['pair'])}}
    keys = {'Auto1': ['a', 'b'], 'Auto2': ['a', 'c'], 'Auto3': ['a', 'pad'], 'AutoSet': ['items'], 'AutoBoth': ['cols'], 'AutoRaw': ['path'], 'AutoVar': ['a', 'options'], 'Plain1': ['a', 'b'], 'Hand1': ['a']}[cls]
    return {'__obj__': cls, 'state': {k: term_value(b[k]) for k in keys}}


def term_value(v):
    """JSON image of a value as run() receives it (mirror of worlds.jsonable)"""
    if isinstance(v, dict) and '__obj__' in v:
        return obj_state(v)
    if isinstance(v, dict) and '__path__' in v:
        return v
    if isinstance(v, list):
        return [term_value(x) for x in v]
    if isinstance(v, dict):
        return {str(k): term_value(x) for k, x in v.items()}
    if isinstance(v, str):
        return str(v)
    return v


EXT = {'json': 'json', 'json_list': 'json', 'numpy': 'npy', 'pandas': 'pd', 'series': 'pd', 'generator': 'jsonl',
       'generator_lazy': 'jsonl', 'list_of_numpy': None, 'dir': None, 'continues': None, 'inmemory': None,
       'generator0': 'jsonl', 'lon0': None, 'dir0': None, 'dirlink': None, 'inmemory_empty': None, 'json_titled': 'json'}

DTYPES = {'int': int, 'str': str, 'float': float, 'bool': bool, 'list': list, 'dict': dict, 'Path': 'Path'}


# ---------------------------------------------------------------------------------------------- context
def flatten_context(ctx, gv, ns=None):
    """-> (global dict, {namespace: dict}) following the documented merge order (later wins; `uses .. as n` mounts the
    used context under n). A context and the contexts it uses defining the same key is outside the alphabet."""
    G, N = {}, {}
    if ctx is None:
        return G, N

    def merge(g2, n2):
        G.update(copy.deepcopy(g2))
        for k, v in n2.items():
            N.setdefault(k, {}).update(copy.deepcopy(v))

    if ctx['kind'] == 'list':
        for c in ctx['items']:
            merge(*flatten_context(c, gv, ns))
        return G, N
    data = copy.deepcopy(ctx.get('data') or {})
    fn = copy.deepcopy(ctx.get('for_namespaces') or {})
    if ns:
        merge({}, {ns: data})
        merge({}, {f'{ns}{SEP_NS}{k}': v for k, v in fn.items()})
    else:
        merge(data, fn)
    for u in ctx.get('uses') or []:
        sub_ns = (f'{ns}{SEP_NS}{u["as"]}' if ns else u['as']) if u.get('as') else ns
        merge(*flatten_context(u['ctx'], gv, sub_ns))
    return G, N


# ---------------------------------------------------------------------------------------------- the model
class TaskInst:
    def __init__(self, key, decl, ns, mount, local):
        self.key = key
        self.decl = decl
        self.ns = ns
        self.mount = mount
        self.local = local
        self.fullname = full(ns, local)
        self.params = {}  # name -> value (model value; PStr for substituted strings; {'__path__':..} for Path dtype)
        self.raw = {}  # name -> raw value as in the effective config (for the key text)
        self.edges = {}  # label -> fullname | ('default', value)
        self.input_names = {}  # fullname of input -> label (registry keys)


class Model:
    def __init__(self, d, modname_last='<modlast>', strict=True):
        self.d = d
        self.modlast = modname_last
        self.error = None
        self.tasks = {}
        self.mounts = []
        try:
            self._mounts()
            self._tasks()
            self._params()
            self._edges()
            self._acyclic()
        except Expected as e:
            if strict and False:
                raise
            self.error = e

    # -- mounts
    def _mounts(self):
        seen = set()
        gv = self.d.get('global_vars')

        def visit(cid, ns):
            c = self.d['configs'][cid]
            ident = (ns, c.get('file') or cid, c.get('part'), c.get('dir'))
            if ident in seen:
                return
            seen.add(ident)
            self.mounts.append((ns, cid))
            for u in c.get('uses') or []:
                child = (f'{ns}{SEP_NS}{u["as"]}' if ns else u['as']) if u.get('as') else ns
                visit(u['config'], child)

        roots = self.d['root'] if isinstance(self.d['root'], list) else [self.d['root']]
        self.root = roots[0]
        visit(self.root, self.d.get('_top_namespace'))   # the root Config itself may be given a namespace
        self.G, self.N = flatten_context(self.d.get('context'), gv)

    def effective_values(self, ns, cid):
        c = self.d['configs'][cid]
        vals = copy.deepcopy(c.get('values') or {})
        vals.update(copy.deepcopy(self.G))
        if ns and ns in self.N:
            vals.update(copy.deepcopy(self.N[ns]))
        gv = self.d.get('global_vars')
        if gv is not None:
            gvd = {k: v for k, v in gv.items() if k != '__as_object__'}
            vals = {k: substitute_deep(v, gvd) for k, v in vals.items()}
        return vals

    # -- tasks
    def declared(self, cid):
        c = self.d['configs'][cid]
        tasks = self.d['tasks']

        def expand(entries):
            out = []
            for e in entries or []:
                if e in tasks:
                    out.append(e)
                elif e.endswith('.*'):
                    out.extend(tasks.keys())  # `<mod>.*` wildcard: every class of the world module
                else:
                    raise ValueError(f'unknown task entry {e}')
            return out

        excluded = set(expand(c.get('excluded')))
        out = []
        for k in expand(c.get('tasks')):
            if tasks[k].get('abstract'):
                continue
            if k in excluded:
                continue
            out.append(k)
        return out

    def _tasks(self):
        for ns, cid in self.mounts:
            for key in self.declared(cid):
                decl = self.d['tasks'][key]
                local = task_local_name(key, decl, self.modlast)
                ti = TaskInst(key, decl, ns, (ns, cid), local)
                if ti.fullname in self.tasks:
                    other = self.tasks[ti.fullname]
                    if other.mount != ti.mount:
                        raise Expected('task-name-conflict', f'{ti.fullname} declared by {other.mount} and {ti.mount}')
                    continue
                self.tasks[ti.fullname] = ti

    # -- params
    def _params(self):
        for ti in self.tasks.values():
            vals = self.effective_values(*ti.mount)
            seen = set()
            for p in ti.decl.get('params', []):
                if p['name'] in seen:
                    raise Expected('duplicate-parameter', p['name'])
                seen.add(p['name'])
                nic = p.get('nic', p['name'])
                if nic in vals:
                    v = vals[nic]
                elif 'default' in p:
                    v = copy.deepcopy(p['default'])
                else:
                    raise Expected('missing-parameter', f'{ti.fullname}.{p["name"]}')
                dt = p.get('dtype')
                if dt and v is not None:
                    if dt == 'Path':
                        if not isinstance(v, str):
                            raise Expected('dtype', f'{ti.fullname}.{p["name"]}={v!r} not Path/str')
                    else:
                        py = DTYPES[dt]
                        ok = isinstance(v, py) and not (py is int and False)
                        if isinstance(v, dict) and '__obj__' in v:
                            ok = False
                        if not ok:
                            raise Expected('dtype', f'{ti.fullname}.{p["name"]}={v!r} not {dt}')
                ti.raw[p['name']] = v
                ti.params[p['name']] = {'__path__': str(v)} if (dt == 'Path' and v is not None) else v

    # -- edges
    def resolve_in_ns(self, ns, ref):
        """a reference written inside namespace ns: exact namespace, name equal, group equal or omitted"""
        cands = []
        ref_ns = ref.split(SEP_NS)[:-1]
        ref_local = ref.split(SEP_NS)[-1]
        target_ns = SEP_NS.join(([ns] if ns else []) + ref_ns) or None
        for fn, ti in self.tasks.items():
            if (ti.ns or None) != target_ns:
                continue
            if ti.local == ref_local or (':' in ti.local and ':' not in ref_local and ti.local.split(':')[-1] == ref_local):
                cands.append(fn)
        if len(cands) > 1:
            best = [c for c in cands if all(o == c or o.endswith(':' + c) for o in cands)]
            if len(best) == 1:
                return best[0]
            raise Expected('ambiguous-input', f'{ref} in {ns}: {cands}')
        return cands[0] if cands else None

    def _edges(self):
        for ti in self.tasks.values():
            for i in ti.decl.get('inputs', []):
                how, ref = i['how'], i['ref']
                if how in ('class', 'opt_class'):
                    tdecl = self.d['tasks'][ref]
                    name = task_local_name(ref, tdecl, self.modlast)
                elif how == 'pattern':
                    pat = ref.lstrip('~')
                    anyns = ref.startswith('~~')
                    for fn, other in self.tasks.items():
                        if (anyns or (other.ns or None) == (ti.ns or None)) and re.fullmatch(pat, other.local):
                            rel = fn[len(ti.ns) + 2:] if (ti.ns and fn.startswith(ti.ns + SEP_NS)) else fn
                            label = '~' + rel
                            if fn in ti.input_names:
                                raise Expected('duplicate-input', fn)
                            ti.edges[label] = fn
                            ti.input_names[fn] = label
                    continue
                else:
                    name = ref
                target = self.resolve_in_ns(ti.ns, name)
                if how in ('class', 'opt_class') and target is not None and self.tasks[target].key != ref:
                    # a reference by class means THAT class: a task that merely shares its (short) name does not satisfy it
                    target = None
                label = ref
                if target is None:
                    if how in ('opt_class', 'opt_name'):
                        ti.edges[label] = ('default', copy.deepcopy(i.get('default')))
                        continue
                    raise Expected('missing-input', f'{ti.fullname} needs {name}')
                if target in ti.input_names:
                    raise Expected('duplicate-input', f'{ti.fullname}: {target}')
                ti.edges[label] = target
                ti.input_names[target] = label

    def succ(self, fn):
        return [t for t in self.tasks[fn].edges.values() if isinstance(t, str)]

    def _acyclic(self):
        color = {}

        def visit(n, stack):
            color[n] = 1
            for m in self.succ(n):
                if color.get(m) == 1:
                    raise Expected('cycle', ' -> '.join(stack + [n, m]))
                if m not in color:
                    visit(m, stack + [n])
            color[n] = 2

        for n in self.tasks:
            if n not in color:
                visit(n, [])

    # -- closures (independent Warshall)
    def closure(self):
        names = list(self.tasks)
        reach = {a: set(self.succ(a)) for a in names}  # a requires b
        for k in names:
            for a in names:
                if k in reach[a]:
                    reach[a] |= reach[k]
        return reach

    # -- values
    def term(self, fn, wanted_override=None):
        ti = self.tasks[fn]
        params = {k: term_value(v) for k, v in ti.params.items()}
        inputs = {}
        wanted = None
        if ti.decl.get('run') == 'lazy':
            wanted = params.get('sel')
        for label, tgt in ti.edges.items():
            if wanted is not None and not label.startswith('~') and label not in wanted:
                continue
            if isinstance(tgt, str):
                inputs[label] = self.term(tgt)
            else:
                inputs[label] = {'default': term_value(tgt[1])}
        return {'t': ti.key, 'p': params, 'i': inputs}

    def requested_inputs(self, fn):
        """inputs run() of fn actually asks for (lazy style asks only for the selected ones)"""
        ti = self.tasks[fn]
        wanted = ti.params.get('sel') if ti.decl.get('run') == 'lazy' else None
        return [t for label, t in ti.edges.items() if isinstance(t, str) and (wanted is None or label.startswith('~') or label in wanted)]

    # -- frozen 1.4.0 key / path
    def param_text(self, fn):
        ti = self.tasks[fn]
        reprs = []
        for p in sorted(ti.decl.get('params', []), key=lambda p: p['name']):
            name = p['name']
            if p.get('ignore'):
                continue
            v = ti.raw[name]
            if p.get('dpdv') and 'default' in p and _py_equal(v, p['default']):
                continue
            if p.get('dtype') == 'Path' and v is not None:
                text = repr(v.original) if isinstance(v, PStr) else repr(v)
            else:
                text = vrepr(v)
            reprs.append(f'{name}={text}')
        # optional inputs are parameters too; they are never persisted as parameters (their key enters via inputs)
        return '###'.join(reprs) if reprs else None

    def param_reprs(self, fn):
        """representation of EVERY parameter value (what the run info records), persisted or not"""
        ti = self.tasks[fn]
        out = {}
        for p in ti.decl.get('params', []):
            v = ti.raw[p['name']]
            if p.get('dtype') == 'Path' and v is not None:
                out[p['name']] = repr(v.original) if isinstance(v, PStr) else repr(v)
            else:
                out[p['name']] = vrepr(v).replace('<mod>', self.modlast)
        return out

    def config_name(self, cid):
        c = self.d['configs'][cid]
        if cid == self.root and self.d.get('_top_name'):
            return self.d['_top_name']   # the root Config is given an explicit name=
        if c['medium'] == 'part':
            return f"{(c.get('file') or cid).rsplit('.', 1)[0]}#{c['part']}"
        if c['medium'] == 'inline':
            return c.get('cname', cid)
        return (c.get('file') or cid).rsplit('.', 1)[0] if c.get('file') else cid

    def key_text(self, fn):
        ti = self.tasks[fn]
        ins = []
        for tgt in sorted(ti.input_names):
            rel = tgt[len(ti.ns) + 2:] if ti.ns else tgt
            ins.append(f'{rel}={self.key(tgt)}')
        return f'{self.param_text(fn)}$$${"###".join(ins)}'.replace('<mod>', self.modlast)

    def key(self, fn):
        cache = self.__dict__.setdefault('_keys', {})
        if fn not in cache:
            cache[fn] = hashlib.sha256(self.key_text(fn).encode()).hexdigest()[:32]
        return cache[fn]

    def relpath(self, fn, name_mode_config=None):
        ti = self.tasks[fn]
        kind = ti.decl.get('data', 'json')
        if kind in ('inmemory', 'inmemory_empty'):
            return None
        stem = name_mode_config if name_mode_config is not None else self.key(fn)
        ext = EXT[kind]
        d = ti.local.replace(':', '/')
        return f'{d}/{stem}.{ext}' if ext else f'{d}/{stem}'

    # -- canonical computation descriptor (ground truth for C02/C03/C13)
    def descriptor(self, fn):
        ti = self.tasks[fn]
        ps = {}
        for p in ti.decl.get('params', []):
            if p.get('ignore'):
                continue
            v = ti.raw[p['name']]
            if p.get('dpdv') and 'default' in p and _py_equal(v, p['default']):
                continue
            ps[p['name']] = _tagged(v, path=p.get('dtype') == 'Path')
        ins = {}
        for tgt in ti.input_names:
            rel = tgt[len(ti.ns) + 2:] if ti.ns else tgt
            ins[rel] = self.descriptor(tgt)
        return {'task': ti.local, 'params': ps, 'inputs': ins}


def _py_equal(a, b):
    """python == on model values (True == 1 == 1.0, as the library's `value == default` sees it)"""
    if isinstance(a, dict) and '__obj__' in a or isinstance(b, dict) and '__obj__' in b:
        return False
    return a == b


def _tagged(v, path=False):
    """type-tagged canonical form: values that the storage scheme is meant to distinguish have different images"""
    if isinstance(v, PStr):
        return ['pstr', v.original]
    if isinstance(v, bool):
        return ['bool', v]
    if isinstance(v, int):
        return ['int', v]
    if isinstance(v, float):
        return ['float', repr(v)]
    if v is None:
        return ['none']
    if isinstance(v, str):
        return ['path' if path else 'str', v]
    if isinstance(v, list):
        return ['list', [_tagged(x) for x in v]]
    if isinstance(v, dict) and '__obj__' in v:
        cls = v['__obj__']
        if cls in OBJ_SIGS:
            s = OBJ_SIGS[cls]
            b = obj_bind(v)
            parts = {n: _tagged(b[n]) for n, dflt, req in s['args'] if n not in s['ignore'] and not (n in s['dpdv'] and b[n] == dflt)}
            return ['obj', cls, sorted(parts.items())]
        if cls == 'AutoSet':
            return ['obj', cls, sorted(_tagged(x) for x in obj_bind(v)['items'])]
        return ['obj', cls, sorted((k, _tagged(x)) for k, x in obj_bind(v).items())]
    if isinstance(v, dict):
        return ['dict', sorted((k, _tagged(x)) for k, x in v.items())]
    raise ValueError(repr(v))
