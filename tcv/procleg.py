"""E6 leg: histories whose segments run in REAL fresh interpreters (one process per segment) over one data directory;
the reference StoreModel runs in the parent. Used by C01 (values) and C04 (runs)."""
import itertools
import json
import os
import subprocess
import sys

from tcv import VERIF_DIR, refmodel, scratch, worlds
from tcv.core import HarnessError, Result, Violation
from tcv.histories import StoreModel


def segments_family(desc, variants, tasks, max_segments):
    """every sequence of <= max_segments segments; a segment = [new(0, v), value(0, t), inspect(0), value(0, t2)?]"""
    seg_choices = [(v, t) for v in variants for t in tasks]
    for k in range(1, max_segments + 1):
        for combo in itertools.product(seg_choices, repeat=k):
            yield [[['new', 0, v], ['inspect', 0], ['value', 0, t]] for v, t in combo]


def run_history(desc, segs, seed=0):
    """-> (list of per-op (obs, exp), process count)"""
    root = scratch.fresh('proc')
    data_dir = os.path.join(root, 'data')
    world_root = os.path.join(root, 'world')
    os.makedirs(world_root)
    model = StoreModel(desc, 'x')
    out = []
    try:
        for i, seg in enumerate(segs):
            model.restart()
            kinds = {}
            exps = []
            for op in seg:
                if op[0] == 'new':
                    exps.append(model.new(op[1], op[2]))
                    m = model.slots[op[1]]['model']
                    kinds = {fn: ti.decl.get('data', 'json') for fn, ti in m.tasks.items()}
                elif op[0] == 'value':
                    exps.append(model.value(op[1], op[2]))
                elif op[0] == 'inspect':
                    m = model.slots[op[1]]['model']
                    exps.append({'has_data': {fn: model.has_data(op[1], fn) for fn in m.tasks}, 'run_objs': []})
            job = {'op': 'segment', 'desc': desc, 'world_root': world_root, 'data_dir': data_dir, 'ops': seg, 'kinds': kinds}
            p = subprocess.run([sys.executable, '-m', 'tcv.worker'], input=json.dumps(job), capture_output=True, text=True, cwd=VERIF_DIR,
                               env=dict(os.environ, PYTHONHASHSEED=str((seed + i) % 1000), PYTHONPATH=VERIF_DIR), timeout=300)
            if p.returncode != 0:
                raise HarnessError(f'segment worker failed: {p.stderr[-800:]}')
            res = json.loads(p.stdout)
            for rec, exp in zip(res['results'], exps):
                out.append((rec, exp))
    finally:
        scratch.drop(root)
    return out


def _job(args):
    desc, segs, which, seed = args
    pairs = run_history(desc, segs, seed)
    flat = [op for seg in segs for op in seg]
    vs = []
    case = {'kind': 'proc', 'world': desc['name'], 'segs': segs}
    m_cache = {}
    for (rec, exp), op in zip(pairs, flat):
        if rec.get('error'):
            vs.append(Violation(f'{desc["name"]}: request fails across a real process restart', f'segments {segs}: {op}: {rec["error"]}', case))
            break
        if op[0] == 'value':
            if which == 'C01' and rec.get('term') != exp['term']:
                vs.append(Violation(f'{desc["name"]}: wrong value returned after a real process restart', f'segments {segs}: {op} -> {rec.get("term")} expected {exp["term"]}', case))
                break
            if which == 'C04' and sorted(rec['run_objs']) != sorted(exp['run_objs']):
                vs.append(Violation(f'{desc["name"]}: runs differ from the prediction across real process restarts', f'segments {segs}: {op} ran {rec["run_objs"]}, model {exp["run_objs"]}', case))
                break
        elif op[0] in ('new', 'inspect'):
            if which == 'C04' and rec['run_objs']:
                vs.append(Violation(f'{desc["name"]}: {op[0]} executed run() in a fresh process', f'segments {segs}: {rec["run_objs"]}', case))
                break
            if which == 'C04' and op[0] == 'inspect' and rec.get('has_data') != exp['has_data']:
                vs.append(Violation(f'{desc["name"]}: has_data in a fresh process disagrees with the store', f'segments {segs}: {rec.get("has_data")} vs {exp["has_data"]}', case))
                break
    return [v.to_json() for v in vs], len(segs)


def run_leg(which, desc, variants, tasks, max_segments, seed=0):
    from tcv.pool import pmap

    res = Result()
    hists = list(segments_family(desc, variants, tasks, max_segments))
    for vs, nproc in pmap(_job, [(desc, h, which, seed) for h in hists]):
        res.add('process_histories')
        res.add('interpreter_starts', nproc)
        res.add('evaluations')
        res.add('transitions', nproc * 3)
        for v in vs:
            res.violations.append(Violation(v['signature'], v['what'], v['case']))
    return res
