"""tcv - bounded exhaustive exploration (model checking) harness for flowerchecker/taskchain.

Importing this package puts ``$TCV_REPO/src`` (default ``/repo/src``) first on ``sys.path`` so that the
working tree under test is what ``import taskchain`` resolves to, and silences the library's console noise
(stdout is reserved for VIOLATION / KNOWN-FINDING lines).
"""
import os
import sys
import warnings

VERIF_DIR = os.path.dirname(os.path.dirname(os.path.abspath(__file__)))
REPO = os.environ.get('TCV_REPO', '/repo')
_src = os.path.join(REPO, 'src')
if _src not in sys.path[:1]:
    sys.path.insert(0, _src)
warnings.filterwarnings('ignore')
os.environ.setdefault('MPLBACKEND', 'Agg')


def quiet_library():
    """Silence the cache logger's stdout handler, the chain's console handler and tqdm (the third-party bar the library's
    progress_bar hands its data to is forced to `disable=True`; progress_bar itself runs unchanged). Idempotent."""
    import logging

    import taskchain.utils.iter as it

    for name in ('tqdm', 'tqdm_notebook'):
        real = getattr(it, name, None)
        if real is not None and not getattr(real, '_tcv_silent', False):
            def silent(data=None, *a, _real=real, **k):
                k['disable'] = True
                return _real(data, *a, **k)
            silent._tcv_silent = True
            setattr(it, name, silent)
    import taskchain.cache as cache

    for h in list(cache.logger.handlers):
        cache.logger.removeHandler(h)
    cache.logger.addHandler(logging.NullHandler())
    cache.logger.propagate = False
    import taskchain.chain as chain

    chain.Chain.log_handler.setLevel(logging.CRITICAL + 10)
    root = logging.getLogger()
    if not any(isinstance(h, logging.NullHandler) for h in root.handlers):
        root.addHandler(logging.NullHandler())
