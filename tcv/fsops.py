"""E3 - file-system operation interposer: operation log, in-situ crash injection, torn writes.

While armed, every mutation issued under `root` by the REAL save path is an *operation*: mkdir, open for writing
(create/truncate), write (one per call; written through unbuffered so the on-disk state follows program order), close,
rename/replace, unlink, rmdir, symlink; shutil.rmtree / shutil.move are replaced by equivalents that perform one
primitive at a time in sorted order. Two modes:

* record: run to completion, log the operations and a digest of the whole tree before each of them;
* crash(k, torn): run the same code again and, when operation k is about to be performed, stop the world: raise `Crash`
  (a BaseException, so no `except Exception` in the library sees it) - for a write optionally after a proper prefix of
  its payload has reached the file - and turn every later mutation into the same exception, so that `finally` blocks and
  context-manager exits cannot change the tree any more. What is on disk then is exactly what a process dying at that
  instant leaves (Python buffers nothing here: writes are passed through). The tree digest after a crash at k must
  equal the digest recorded before operation k - that is the conformance check which catches I/O that bypasses the
  interposer (C-level writes): a mismatch is a harness error, never a pass.
"""
import builtins
import hashlib
import io
import os
import shutil
import stat

from tcv.core import HarnessError

_real = dict(open=io.open, mkdir=os.mkdir, rename=os.rename, replace=os.replace, unlink=os.unlink, remove=os.remove, rmdir=os.rmdir, symlink=os.symlink,
             rmtree=shutil.rmtree, move=shutil.move)


class Crash(BaseException):
    pass


def tree_digest(root, listing=False):
    items = []
    for r, ds, fs in os.walk(root, followlinks=False):
        ds.sort()
        rel = os.path.relpath(r, root)
        items.append((rel + '/', 'd'))
        for f in sorted(fs):
            p = os.path.join(r, f)
            if os.path.islink(p):
                items.append((os.path.join(rel, f), 'l:' + os.readlink(p)))
            else:
                with _real['open'](p, 'rb') as fh:
                    data = fh.read()
                if f.endswith('.run_info.yaml'):
                    # wall-clock fields differ between two executions of the same scenario
                    data = b'\n'.join(l for l in data.split(b'\n') if not l.startswith((b'ended', b'started', b'time')))
                items.append((os.path.join(rel, f), hashlib.sha1(data).hexdigest()[:12]))
    if listing:
        return items
    return hashlib.sha1(repr(items).encode()).hexdigest()[:16]


class FS:
    def __init__(self, root, crash_at=None, torn=None, snapshots=False, buffered=False):
        self.root = os.path.realpath(str(root))
        # buffered=False: every write() reaches the file at once (what large writes / unbuffered files do);
        # buffered=True: data handed to write() stays in the process until flush()/close() (what Python's buffered
        # writers do for small writes) - a process that dies loses it. Both extremes are explored.
        self.buffered = buffered
        self.crash_at = crash_at
        self.torn = torn  # number of payload units (bytes / characters) of write op `crash_at` that still reach the file
        self.ops = []
        self.snaps = [] if snapshots else None
        self.crashed = False
        self.n = 0

    # ---------------------------------------------------------------- core
    def _rel(self, path):
        try:
            p = os.path.realpath(os.fspath(path)) if not os.path.islink(os.fspath(path)) else os.path.join(os.path.realpath(os.path.dirname(os.fspath(path))), os.path.basename(os.fspath(path)))
        except TypeError:
            return None
        if p == self.root or p.startswith(self.root + os.sep):
            return os.path.relpath(p, self.root)
        return None

    def op(self, kind, rel, extra=None):
        """called BEFORE performing a mutation; returns normally if it may proceed (fully)"""
        if self.crashed:
            raise Crash()
        if self.snaps is not None:
            self.snaps.append(tree_digest(self.root))
        k = self.n
        self.n += 1
        self.ops.append((kind, rel, extra))
        if self.crash_at is not None and k == self.crash_at:
            self.crashed = True
            if kind == 'write' and self.torn:
                return 'torn'
            raise Crash()
        return None

    # ---------------------------------------------------------------- patched primitives
    def _open(self, file, mode='r', buffering=-1, encoding=None, errors=None, newline=None, closefd=True, opener=None):
        rel = self._rel(file) if not isinstance(file, int) else None
        writing = any(c in mode for c in 'wax+')
        if rel is None or not writing:
            return _real['open'](file, mode, buffering, encoding, errors, newline, closefd, opener)
        self.op('open', rel, mode)
        binmode = mode.replace('t', '')
        if 'b' not in binmode:
            binmode += 'b'
        raw = _real['open'](file, binmode, buffering=0)
        return _WFile(self, raw, rel, text='b' not in mode, encoding='utf-8' if encoding in (None, 'locale') else encoding, name=os.fspath(file), mode=mode)

    def _mkdir(self, path, mode=0o777, *, dir_fd=None):
        rel = self._rel(path) if dir_fd is None else None
        if rel is None:
            return _real['mkdir'](path, mode, dir_fd=dir_fd)
        if os.path.lexists(path):
            return _real['mkdir'](path, mode)  # raises FileExistsError: not a mutation
        self.op('mkdir', rel)
        return _real['mkdir'](path, mode)

    def _rename(self, kind):
        def f(src, dst, **kw):
            rs, rd = self._rel(src), self._rel(dst)
            if rs is None and rd is None:
                return _real[kind](src, dst, **kw)
            self.op(kind, rs, rd)
            return _real[kind](src, dst, **kw)
        return f

    def _unlink(self, kind):
        def f(path, *, dir_fd=None):
            rel = self._rel(path) if dir_fd is None else None
            if rel is None:
                return _real[kind](path, dir_fd=dir_fd)
            if not os.path.lexists(path):
                return _real[kind](path)
            self.op('unlink', rel)
            return _real[kind](path)
        return f

    def _rmdir(self, path, *, dir_fd=None):
        rel = self._rel(path) if dir_fd is None else None
        if rel is None:
            return _real['rmdir'](path, dir_fd=dir_fd)
        self.op('rmdir', rel)
        return _real['rmdir'](path)

    def _symlink(self, src, dst, target_is_directory=False, *, dir_fd=None):
        rel = self._rel(dst)
        if rel is None:
            return _real['symlink'](src, dst, target_is_directory, dir_fd=dir_fd)
        self.op('symlink', rel, os.fspath(src))
        return _real['symlink'](src, dst, target_is_directory)

    def _rmtree(self, path, ignore_errors=False, onerror=None, **kw):
        rel = self._rel(path)
        if rel is None:
            return _real['rmtree'](path, ignore_errors=ignore_errors, onerror=onerror, **kw)
        path = os.fspath(path)
        if not os.path.lexists(path):
            if ignore_errors:
                return
            raise FileNotFoundError(path)

        def rec(p):
            for name in sorted(os.listdir(p)):
                q = os.path.join(p, name)
                if os.path.isdir(q) and not os.path.islink(q):
                    rec(q)
                else:
                    self.op('unlink', self._rel(q))
                    _real['unlink'](q)
            self.op('rmdir', self._rel(p))
            _real['rmdir'](p)
        rec(path)

    def _move(self, src, dst, *a, **k):
        rs, rd = self._rel(src), self._rel(dst)
        if rs is None and rd is None:
            return _real['move'](src, dst, *a, **k)
        real_dst = dst
        if os.path.isdir(dst) and not os.path.islink(dst):
            real_dst = os.path.join(dst, os.path.basename(os.fspath(src).rstrip(os.sep)))
        self.op('rename', rs, self._rel(real_dst))
        _real['rename'](src, real_dst)
        return real_dst

    # ---------------------------------------------------------------- arming
    def __enter__(self):
        self._saved = (io.open, builtins.open, os.mkdir, os.rename, os.replace, os.unlink, os.remove, os.rmdir, os.symlink, shutil.rmtree, shutil.move)
        io.open = builtins.open = self._open
        os.mkdir = self._mkdir
        os.rename = self._rename('rename')
        os.replace = self._rename('replace')
        os.unlink = self._unlink('unlink')
        os.remove = self._unlink('remove')
        os.rmdir = self._rmdir
        os.symlink = self._symlink
        shutil.rmtree = self._rmtree
        shutil.move = self._move
        return self

    def __exit__(self, *a):
        (io.open, builtins.open, os.mkdir, os.rename, os.replace, os.unlink, os.remove, os.rmdir, os.symlink, shutil.rmtree, shutil.move) = self._saved
        return False


class _WFile:
    """write-through file object (text or binary) whose every write is one logged operation"""

    def __init__(self, fs, raw, rel, text, encoding, name, mode):
        self._fs, self._raw, self._rel, self._text, self._enc = fs, raw, rel, text, encoding
        self.name = name
        self.mode = mode
        self.closed = False
        self._buf = []
        self.encoding = encoding if text else None

    def write(self, data):
        if self._text and not isinstance(data, str):
            raise TypeError(f'write() argument must be str, not {type(data).__name__}')
        if not self._text and isinstance(data, str):
            raise TypeError("a bytes-like object is required, not 'str'")
        n = len(data)
        if n == 0:
            return 0
        if self._fs.buffered:
            if self._fs.crashed:
                raise Crash()
            self._buf.append(data)
            return n
        r = self._fs.op('write', self._rel, n)
        if r == 'torn':
            part = data[:self._fs.torn]
            self._raw.write(part.encode(self._enc) if self._text else bytes(part))
            raise Crash()
        self._raw.write(data.encode(self._enc) if self._text else bytes(data))
        return n

    def _drain(self):
        """buffered mode: the buffered data reaches the file as ONE operation (flush / close / garbage collection)"""
        if not self._buf:
            return
        data = ('' if self._text else b'').join(self._buf)
        r = self._fs.op('write', self._rel, len(data))
        self._buf = []
        if r == 'torn':
            part = data[:self._fs.torn]
            self._raw.write(part.encode(self._enc) if self._text else bytes(part))
            raise Crash()
        self._raw.write(data.encode(self._enc) if self._text else bytes(data))

    def writelines(self, lines):
        for l in lines:
            self.write(l)

    def flush(self):
        if self._fs.crashed:
            return
        self._drain()
        self._raw.flush()

    def close(self):
        if not self.closed:
            self.closed = True
            try:
                if not self._fs.crashed:
                    self._drain()
            finally:
                self._raw.close()

    def __enter__(self):
        return self

    def __exit__(self, *a):
        self.close()
        return False

    def fileno(self):
        raise io.UnsupportedOperation('fileno')  # forces numpy / pickle through write()

    def tell(self):
        return self._raw.tell()

    def seek(self, *a):
        return self._raw.seek(*a)

    def writable(self):
        return True

    def readable(self):
        return '+' in self.mode

    def seekable(self):
        return True

    def isatty(self):
        return False

    def read(self, *a):
        d = self._raw.read(*a)
        return d.decode(self._enc) if self._text else d

    def truncate(self, *a):
        if self._fs.crashed:
            raise Crash()
        return self._raw.truncate(*a)

    def __del__(self):
        # a file object that is dropped without close() (e.g. yaml.dump(info, path.open('w'))) is flushed when it is
        # collected - with reference counting that is immediately, i.e. a deterministic point of the program
        try:
            if not self.closed and not self._fs.crashed:
                self._drain()
        except BaseException:  # noqa  (Crash included: the flag is set, later operations will see it)
            pass
        try:
            self._raw.close()
        except Exception:  # noqa
            pass
