"""E6 - worker for real interpreter boundaries: `python -m tcv.worker` reads a JSON job on stdin, writes JSON on stdout.
job: {"op": "paths", "descs": [descriptor, ...]} -> [{fullname: relative data path}, ...] built in THIS interpreter
(whose PYTHONHASHSEED the parent chose)."""
import json
import os
import sys


def paths_of(desc, vid=None):
    from tcv import scratch, worlds

    root = scratch.fresh('wk')
    w = worlds.World(desc, root)
    try:
        base = os.path.join(root, 'data')
        ch = w.chain(vid, base_dir=base)
        return {fn: (None if t.data_path is None else os.path.relpath(str(t.data_path), base)) for fn, t in ch.tasks.items()}
    finally:
        w.dispose()
        scratch.drop(root)


def main():
    import tcv

    tcv.quiet_library()
    job = json.load(sys.stdin)
    if job['op'] == 'paths':
        out = []
        for d in job['descs']:
            try:
                out.append(paths_of(d))
            except Exception as e:  # noqa
                out.append({'__error__': f'{type(e).__name__}: {e}'})
        json.dump({'hashseed': os.environ.get('PYTHONHASHSEED'), 'set_order': list({'x', 'y', 'zz'}), 'results': out}, sys.stdout)
        return 0
    if job['op'] == 'segment':
        # one process lifetime of a history: chain constructions and value requests on an EXISTING data directory
        from tcv import histories, worlds

        w = worlds.World(job['desc'], job['world_root'])
        slots = {}
        out = []
        for op in job['ops']:
            mark = len(w.rt.log)
            rec = {'op': op}
            try:
                if op[0] == 'new':
                    slots[op[1]] = w.chain(op[2], base_dir=job['data_dir'])
                elif op[0] == 'value':
                    t = slots[op[1]].tasks[op[2]]
                    kind = job['kinds'][op[2]]
                    p = w.decode(t.value, kind)
                    rec['term'] = p['term']
                elif op[0] == 'inspect':
                    ch = slots[op[1]]
                    rec['has_data'] = {fn: bool(t.has_data) for fn, t in ch.tasks.items()}
                    _ = ch.tasks_df
            except Exception as e:  # noqa
                rec['error'] = f'{type(e).__name__}: {e}'
            rec['run_objs'] = [[r[0].split('::')[-1], r[1]] for r in w.rt.log[mark:]]
            out.append(rec)
        json.dump({'pid': os.getpid(), 'results': out}, sys.stdout)
        return 0
    return 2


if __name__ == '__main__':
    raise SystemExit(main())
