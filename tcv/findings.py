"""Known findings: /verif/known_findings.json (committed, read-only at run time).

Entry: {"property": "C03", "status": "known"|"fixed", "id": "K1", "signature": "<regex, fullmatch on Violation.signature>",
        "what": "...", "commit": "<sha, for fixed>"}
Only status == "known" suppresses; "fixed" entries are documentation and suppress nothing.
"""
import json
import os
import re

from tcv import VERIF_DIR

PATH = os.path.join(VERIF_DIR, 'known_findings.json')


def load(property_id):
    if not os.path.exists(PATH):
        return []
    data = json.load(open(PATH))
    return [e for e in data.get('findings', []) if e.get('property') == property_id and e.get('status') == 'known']


def match(entries, signature):
    for e in entries:
        if re.fullmatch(e['signature'], signature):
            return e
    return None
