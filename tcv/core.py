"""Result / violation plumbing shared by all checks."""
import hashlib
import json
import os
import time
from dataclasses import dataclass, field
from typing import Any, Dict, List


def jdump(obj) -> str:
    return json.dumps(obj, sort_keys=True, default=_default, ensure_ascii=False)


def _default(o):
    if isinstance(o, (set, frozenset)):
        return sorted(o, key=repr)
    if isinstance(o, tuple):
        return list(o)
    if isinstance(o, bytes):
        return {'__bytes__': o.hex()}
    return repr(o)


def digest(obj) -> str:
    return hashlib.sha256(jdump(obj).encode('utf-8', 'surrogatepass')).hexdigest()[:16]


@dataclass
class Violation:
    signature: str  # stable identification of *which* input shape / call site fails (matched against known findings)
    what: str  # human readable
    case: Any  # JSON-able replay payload understood by the check's replay()

    def to_json(self):
        return {'signature': self.signature, 'what': self.what, 'case': self.case}


@dataclass
class Result:
    coverage: Dict[str, Any] = field(default_factory=dict)
    violations: List[Violation] = field(default_factory=list)
    assumptions: List[str] = field(default_factory=list)
    harness_errors: List[str] = field(default_factory=list)

    def add(self, key, n=1):
        self.coverage[key] = self.coverage.get(key, 0) + n

    def sample(self, case, limit=6):
        s = self.coverage.setdefault('samples', [])
        if len(s) < limit:
            s.append(case)

    def merge(self, other: 'Result'):
        for k, v in other.coverage.items():
            if k == 'samples':
                for c in v:
                    self.sample(c)
            elif isinstance(v, bool):
                self.coverage[k] = self.coverage.get(k, True) and v
            elif isinstance(v, (int, float)):
                self.coverage[k] = self.coverage.get(k, 0) + v
            elif isinstance(v, dict):
                d = self.coverage.setdefault(k, {})
                for kk, vv in v.items():
                    if isinstance(vv, (int, float)) and not isinstance(vv, bool):
                        d[kk] = d.get(kk, 0) + vv
                    else:
                        d[kk] = vv
            elif isinstance(v, list):
                self.coverage.setdefault(k, []).extend(v)
            else:
                self.coverage[k] = v
        self.violations.extend(other.violations)
        self.assumptions.extend(a for a in other.assumptions if a not in self.assumptions)
        self.harness_errors.extend(other.harness_errors)


class HarnessError(Exception):
    """Something is wrong with the checking machinery itself (never reported as a violation)."""


class Timer:
    def __init__(self):
        self.t0 = time.time()

    def elapsed(self):
        return time.time() - self.t0


def tier_of(env=os.environ):
    return env.get('VERIF_TIER', 'quick')
