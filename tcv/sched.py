"""E4 - cooperative scheduler for real threads at file-system / lock granularity, with a deviation-bounded stateless
explorer (iterative preemption bounding).

Caller bodies are the REAL library functions. Exactly one worker thread runs at a time; a worker yields to the scheduler
(main thread) before every *visible operation*: lock acquire (enabled only while the lock is free), lock release,
Path.exists, open for read, read, open for write (truncation happens here), each half of each write, close, unlink, and
the harness's computer callback. `taskchain.cache.FileLock`, `io.open`/`builtins.open`, `Path.exists` are rebound while a
run is armed; calls from threads that are not workers of the current run pass straight through.
"""
import builtins
import io
import os
import pathlib
import threading

from tcv.core import HarnessError

WAIT = 30.0
_real_open = io.open
_real_exists = pathlib.Path.exists
_real_unlink = pathlib.Path.unlink

_CURRENT = [None]  # the armed Run
_ORIG_LOCK = [None]  # taskchain.cache.FileLock as the tree under test defines it


class Deadlock(Exception):
    pass


class Worker:
    def __init__(self, run, idx, name, body, start_after=None):
        self.run = run
        self.idx = idx
        self.name = name
        self.body = body
        self.start_after = start_after  # name of a worker that must have finished before this one may start
        self.sem = threading.Semaphore(0)
        self.pending = None  # (op, detail) the worker wants to perform next
        self.finished = False
        self.result = None
        self.error = None
        self.thread = threading.Thread(target=self._main, daemon=True)

    def _tracer(self, frame, event, arg):
        # line-granularity points: every source line of the selected library files executed by this worker is a visible operation
        if frame.f_code.co_filename in self.run.trace_files:
            return self._line
        return None

    def _line(self, frame, event, arg):
        if event == 'line':
            self.run.point('line', f'{os.path.basename(frame.f_code.co_filename)}:{frame.f_lineno}')
        return self._line

    def _main(self):
        self.run.by_thread[threading.get_ident()] = self
        try:
            self.run.point('start', None)
            if self.run.trace_files:
                import sys
                sys.settrace(self._tracer)
            self.result = ('ok', self.body())
        except _Abort:
            self.result = ('aborted', None)
        except BaseException as e:  # noqa
            self.result = ('exc', e)
        finally:
            self.finished = True
            self.pending = None
            self.run.trace.append((self.name, 'finish', None))
            self.run.baton.release()


class _Abort(BaseException):
    pass


class Run:
    """one controlled execution"""

    def __init__(self, root, bodies, choices, horizon=2000, trace_files=()):
        self.root = os.path.realpath(str(root))
        self.trace_files = frozenset(trace_files)  # source files whose lines are scheduling points (pure in-memory races)
        self.workers = [Worker(self, i, n, b, sa) for i, (n, b, sa) in enumerate(bodies)]
        self.by_thread = {}
        self.choices = list(choices)
        self.points = []  # dict(enabled=[names], chosen=idx, running_enabled=bool)
        self.trace = []  # (worker, op, detail) in execution order
        self.locks = {}  # path -> owner name
        self.baton = threading.Semaphore(0)
        self.running = None
        self.horizon = horizon
        self.aborting = False
        self.deadlock = None

    # ---- worker side
    def me(self):
        return self.by_thread.get(threading.get_ident())

    def point(self, op, detail):
        w = self.me()
        if w is None:
            return
        if self.aborting:
            raise _Abort()
        w.pending = (op, detail)
        self.baton.release()
        if not w.sem.acquire(timeout=WAIT):
            raise HarnessError(f'worker {w.name} never rescheduled at {op} {detail}')
        if self.aborting:
            raise _Abort()
        w.pending = None
        self.trace.append((w.name, op, detail))

    # ---- scheduler side (main thread)
    def _enabled(self, w):
        if w.finished or w.pending is None:
            return False
        op, detail = w.pending
        if op == 'start' and w.start_after is not None:
            dep = next(x for x in self.workers if x.name == w.start_after)
            return dep.finished
        if op == 'acquire':
            lk = getattr(w, 'pending_lock', None)
            return lk.probe() if lk is not None else lock_is_free(detail)
        return True  # incl. 'try_acquire'

    def execute(self):
        _CURRENT[0] = self
        try:
            for w in self.workers:
                w.thread.start()
            # all workers arrive at their 'start' point
            for _ in self.workers:
                if not self.baton.acquire(timeout=WAIT):
                    raise HarnessError('worker did not reach its first point')
            steps = 0
            while True:
                alive = [w for w in self.workers if not w.finished]
                if not alive:
                    break
                en = [w for w in alive if self._enabled(w)]
                if not en:
                    self.deadlock = [(w.name, w.pending) for w in alive]
                    self._abort(alive)
                    break
                # canonical order: the running thread first if still enabled, then ascending ids
                run_en = self.running is not None and self.running in en
                order = ([self.running] if run_en else []) + [w for w in en if w is not self.running]
                i = len(self.points)
                ch = self.choices[i] if i < len(self.choices) else 0
                if ch >= len(order):
                    self._abort(alive)
                    raise HarnessError(f'choice {ch} out of range at point {i} (enabled {[w.name for w in order]}): divergence while replaying a prefix')
                self.points.append({'n': len(order), 'chosen': ch, 'running_enabled': run_en, 'enabled': [w.name for w in order]})
                w = order[ch]
                self.running = w
                w.sem.release()
                if not self.baton.acquire(timeout=WAIT):
                    raise HarnessError(f'worker {w.name} neither yielded nor finished')
                steps += 1
                if steps > self.horizon:
                    self._abort([x for x in self.workers if not x.finished])
                    raise HarnessError('horizon exceeded (livelock?)')
        finally:
            _CURRENT[0] = None
        for w in self.workers:
            w.thread.join(WAIT)
        return self

    def _abort(self, alive):
        self.aborting = True
        for w in alive:
            w.sem.release()
        for w in alive:
            w.thread.join(5)

    def preemptions_before(self, i):
        return sum(1 for p in self.points[:i] if p['running_enabled'] and p['chosen'] != 0)


# ------------------------------------------------------------------------------------------------ interposition
class SchedLock:
    """stands in for filelock.FileLock inside taskchain.cache (same constructor, acquire/release, context manager, other
    attributes delegated). Whether an acquire is ENABLED is decided by the real lock (non-blocking probe on the lock file
    as it is on disk now - so unlinking / re-creating the lock file has its real effect); once the scheduler grants it the
    real lock is taken with timeout=0 and must succeed."""

    def __init__(self, lock_file, *a, **k):
        import filelock

        self.path = str(lock_file)
        self._args = (a, k)
        # the lock the library itself would have created (whatever `taskchain.cache.FileLock` is in the tree under test)
        self._real = (_ORIG_LOCK[0] or filelock.FileLock)(self.path, *a, **k)
        self._depth = 0

    def probe(self):
        """would an acquire of this lock go through right now? Asked by the scheduler thread while every worker is
        parked, answered by the REAL lock object: it is tried without waiting and given back at once. (A file lock with
        per-thread state sees the lock file as any other thread / process does; a lock whose state is shared by all
        threads of the process - re-entrant counter not thread-local - answers yes while another caller holds it,
        which is exactly its behaviour.)"""
        try:
            got = self._real.acquire(timeout=0)
        except Exception:  # noqa  (filelock.Timeout)
            return False
        if got is False:
            return False
        try:
            self._real.release()
        except Exception as e:  # noqa
            raise HarnessError(f'probe of lock {self.path} could not be given back: {e}')
        return True

    def _release_real(self, force=True):
        try:
            self._real.release(force=force)
        except TypeError:
            self._real.release()

    @staticmethod
    def _non_blocking(a, k):
        blocking = k.get('blocking', True)
        timeout = k.get('timeout', a[0] if a else None)
        return blocking is False or timeout == 0

    def acquire(self, *a, **k):
        run = _CURRENT[0]
        w = run.me() if run else None
        if w is None:
            self._real.acquire(*a, **k)
            return _Proxy(self)
        if self._depth == 0:
            if self._non_blocking(a, k):
                # a try-acquire never waits: always schedulable, the real lock decides (and raises its Timeout)
                run.point('try_acquire', self.path)
                self._real.acquire(*a, **k)
            else:
                w.pending_lock = self
                try:
                    run.point('acquire', self.path)
                finally:
                    w.pending_lock = None
                try:
                    got = self._real.acquire(timeout=0)
                except Exception as e:  # noqa
                    raise HarnessError(f'scheduler granted lock {self.path} but the real lock refused it: {e}')
                if got is False:
                    raise HarnessError(f'scheduler granted lock {self.path} but the real lock refused it')
            run.locks[self.path] = w.name
        else:
            self._real.acquire(timeout=0)  # re-entrant acquire by the holder: the real lock counts it
        self._depth += 1
        return _Proxy(self)

    def release(self, force=False):
        run = _CURRENT[0]
        w = run.me() if run else None
        if w is None:
            self._real.release(force)
            return
        if self._depth == 0:
            return
        last = force or self._depth == 1
        if last and not run.aborting:
            try:
                run.point('release', self.path)
            except _Abort:
                self._depth = 0
                self._release_real(True)
                run.locks.pop(self.path, None)
                raise
        self._depth = 0 if force else self._depth - 1
        self._release_real(force)  # what the caller asked for: one level, or everything
        if self._depth == 0:
            run.locks.pop(self.path, None)

    def __enter__(self):
        self.acquire()
        return self

    def __exit__(self, *exc):
        self.release()
        return False

    def __getattr__(self, name):
        return getattr(self._real, name)


class _Proxy:
    def __init__(self, lock):
        self.lock = lock

    def __enter__(self):
        return self.lock

    def __exit__(self, *exc):
        self.lock.release()
        return False


def lock_is_free(path):
    """non-blocking probe of the REAL lock file (from the scheduler thread, while every worker is parked)"""
    import filelock

    probe = filelock.FileLock(path)
    try:
        probe.acquire(timeout=0)
    except filelock.Timeout:
        return False
    probe.release(force=True)
    return True


class SchedFile:
    def __init__(self, run, real, path, mode):
        self._run, self._f, self._path, self._mode = run, real, path, mode

    def write(self, data):
        n = len(data)
        h = n // 2
        self._run.point('write1', self._path)
        self._f.write(data[:h])
        self._f.flush()
        self._run.point('write2', self._path)
        self._f.write(data[h:])
        self._f.flush()
        return n

    def read(self, *a):
        self._run.point('read', self._path)
        return self._f.read(*a)

    def readline(self, *a):
        self._run.point('read', self._path)
        return self._f.readline(*a)

    def readinto(self, b):
        self._run.point('read', self._path)
        return self._f.readinto(b)

    def close(self):
        if not self._f.closed:
            if not self._run.aborting:
                try:
                    self._run.point('close', self._path)
                except _Abort:
                    self._f.close()
                    raise
            self._f.close()

    def __enter__(self):
        return self

    def __exit__(self, *a):
        self.close()
        return False

    def __iter__(self):
        return iter(self._f)

    def __getattr__(self, name):
        return getattr(self._f, name)


def _in_root(run, file):
    try:
        p = os.path.realpath(os.fspath(file))
    except TypeError:
        return None
    return p if p.startswith(run.root + os.sep) else None


def _open(file, mode='r', *a, **k):
    run = _CURRENT[0]
    if run is None or run.me() is None:
        return _real_open(file, mode, *a, **k)
    p = _in_root(run, file)
    if p is None or p.endswith('.lock'):
        return _real_open(file, mode, *a, **k)
    rel = os.path.relpath(p, run.root)
    writing = any(c in mode for c in 'wax+')
    run.point('open_w' if writing else 'open_r', rel)
    real = _real_open(file, mode, *a, **k)
    return SchedFile(run, real, rel, mode)


def _exists(self):
    run = _CURRENT[0]
    if run is not None and run.me() is not None:
        p = _in_root(run, self)
        if p is not None and not p.endswith('.lock'):
            run.point('exists', os.path.relpath(p, run.root))
    return _real_exists(self)


def _unlink(self, *a, **k):
    run = _CURRENT[0]
    if run is not None and run.me() is not None:
        p = _in_root(run, self)
        if p is not None:  # lock files included: removing one changes who can hold "the" lock
            run.point('unlink_lock' if p.endswith('.lock') else 'unlink', os.path.relpath(p, run.root))
    return _real_unlink(self, *a, **k)


_real_os_unlink = os.unlink
_real_os_remove = os.remove
_real_os_replace = os.replace
_real_os_rename = os.rename


def _mk_os_replace(real, opname):
    def f(src, dst, *a, **k):
        run = _CURRENT[0]
        if run is not None and run.me() is not None and not a and not k:
            ps, pd = _in_root(run, src), _in_root(run, dst)
            if ps is not None and pd is not None:
                run.point(opname, (os.path.relpath(ps, run.root), os.path.relpath(pd, run.root)))
        return real(src, dst, *a, **k)
    return f


def _os_unlink(path, *a, **k):
    run = _CURRENT[0]
    if run is not None and run.me() is not None and not a and not k:
        p = _in_root(run, path)
        if p is not None:
            run.point('unlink_lock' if p.endswith('.lock') else 'unlink', os.path.relpath(p, run.root))
    return _real_os_unlink(path, *a, **k)


class armed:
    """context manager: rebind the seams"""

    def __enter__(self):
        import taskchain.cache as cache

        self._saved = (cache.FileLock, io.open, builtins.open, pathlib.Path.exists, pathlib.Path.unlink)
        self._saved_os = (os.unlink, os.remove, os.replace, os.rename)
        os.unlink = os.remove = _os_unlink
        os.replace = _mk_os_replace(_real_os_replace, 'replace')
        os.rename = _mk_os_replace(_real_os_rename, 'replace')
        _ORIG_LOCK[0] = cache.FileLock
        cache.FileLock = SchedLock
        io.open = _open
        builtins.open = _open
        pathlib.Path.exists = _exists
        pathlib.Path.unlink = _unlink
        return self

    def __exit__(self, *a):
        import taskchain.cache as cache

        cache.FileLock, io.open, builtins.open, pathlib.Path.exists, pathlib.Path.unlink = self._saved
        os.unlink, os.remove, os.replace, os.rename = self._saved_os
        return False


# ------------------------------------------------------------------------------------------------ exploration
def children(run, prefix_len, bound):
    """alternative prefixes branching off `run` at points >= prefix_len that stay within the preemption bound"""
    out = []
    pts = run.points
    for i in range(len(pts) - 1, prefix_len - 1, -1):
        p = pts[i]
        cost = run.preemptions_before(i)
        if p['running_enabled']:
            cost += 1
        if cost > bound:
            continue
        base = [q['chosen'] for q in pts[:i]]
        for alt in range(p['n'] - 1, 0, -1):
            out.append(base + [alt])
    return out


def explore(make_run, bound, max_schedules=None, root=()):
    """Stateless DFS over all schedules below prefix `root` with at most `bound` preemptions. make_run(choices) ->
    executed Run. Yields every Run. Complete within the bound (the whole space = explore(root=()))."""
    stack = [list(root)]
    n = 0
    while stack:
        prefix = stack.pop()
        run = make_run(prefix)
        n += 1
        pts = run.points
        for i, ch in enumerate(prefix):
            if i >= len(pts) or pts[i]['chosen'] != ch:
                raise HarnessError(f'divergence replaying prefix {prefix}: {[p["chosen"] for p in pts]}')
        yield run
        stack.extend(children(run, len(prefix), bound))
        if max_schedules and n >= max_schedules:
            return


# ------------------------------------------------------------------------------------------------ callers as real processes
class RemoteError(Exception):
    """an exception raised inside a caller process (type name and message travel, the object does not)"""

    def __init__(self, type_name, msg):
        super().__init__(f'{type_name}: {msg}')
        self.type_name = type_name


class _ChildRun:
    """what the interposition layer sees inside a forked caller process: one worker, every visible operation is announced
    to the scheduler process over a pipe and performed only after its 'go'"""

    def __init__(self, conn, name, root):
        self.conn, self.root = conn, root
        self.aborting = False
        self.locks = {}
        self._tid = threading.get_ident()

        class _W:
            pass
        self._w = _W()
        self._w.name = name

    def me(self):
        return self._w if threading.get_ident() == self._tid else None

    def point(self, op, detail):
        if self.aborting:
            raise _Abort()
        self.conn.send(('point', op, detail))
        if not self.conn.poll(WAIT * 2):
            os._exit(3)
        if self.conn.recv() != 'go':
            self.aborting = True
            raise _Abort()


class ProcWorker:
    def __init__(self, idx, name, body, start_after):
        self.idx, self.name, self.body, self.start_after = idx, name, body, start_after
        self.pending = None
        self.finished = False
        self.result = None
        self.conn = None
        self.pid = None


class ProcRun(Run):
    """the same controlled execution with every caller in its OWN forked process: no Python state is shared between the
    callers, the lock is the operating system's lock on the real lock file held by different processes, and the scheduler
    (this process) decides which process performs its next visible operation. Same points / trace / choices as Run."""

    def __init__(self, root, bodies, choices, horizon=2000):  # noqa
        self.root = os.path.realpath(str(root))
        self.workers = [ProcWorker(i, n, b, sa) for i, (n, b, sa) in enumerate(bodies)]
        self.choices = list(choices)
        self.points = []
        self.trace = []
        self.locks = {}
        self.running = None
        self.horizon = horizon
        self.aborting = False
        self.deadlock = None

    def _child(self, w, conn):
        status = 3
        try:
            cr = _ChildRun(conn, w.name, self.root)
            _CURRENT[0] = cr
            try:
                with armed():
                    cr.point('start', None)
                    msg = ('finish', 'ok', w.body())
            except _Abort:
                msg = ('finish', 'aborted', None)
            except BaseException as e:  # noqa
                msg = ('finish', 'exc', (type(e).__name__, str(e)))
            try:
                conn.send(msg)
            except Exception as e:  # noqa  (unpicklable result)
                conn.send(('finish', 'exc', ('HarnessError', f'result of {w.name} cannot be sent: {type(e).__name__}: {e}')))
            status = 0
        finally:
            os._exit(status)

    def _recv(self, w):
        if not w.conn.poll(WAIT):
            raise HarnessError(f'caller process {w.name} neither yielded nor finished')
        try:
            msg = w.conn.recv()
        except EOFError:
            raise HarnessError(f'caller process {w.name} died')
        if msg[0] == 'point':
            w.pending = (msg[1], msg[2])
        else:
            w.finished, w.pending = True, None
            if msg[1] == 'exc':
                tn, m = msg[2]
                if tn == 'HarnessError':
                    self._abort([x for x in self.workers if not x.finished])
                    raise HarnessError(m)
                w.result = ('exc', RemoteError(tn, m))
            else:
                w.result = (msg[1], msg[2])
            self.trace.append((w.name, 'finish', None))
            os.waitpid(w.pid, 0)

    def execute(self):
        import multiprocessing as mp

        for w in self.workers:
            parent, child = mp.Pipe()
            pid = os.fork()
            if pid == 0:
                parent.close()
                self._child(w, child)
            child.close()
            w.conn, w.pid = parent, pid
        try:
            for w in self.workers:
                self._recv(w)
            steps = 0
            while True:
                alive = [w for w in self.workers if not w.finished]
                if not alive:
                    break
                en = [w for w in alive if self._enabled(w)]
                if not en:
                    self.deadlock = [(w.name, w.pending) for w in alive]
                    self._abort(alive)
                    break
                run_en = self.running is not None and self.running in en
                order = ([self.running] if run_en else []) + [w for w in en if w is not self.running]
                i = len(self.points)
                ch = self.choices[i] if i < len(self.choices) else 0
                if ch >= len(order):
                    self._abort(alive)
                    raise HarnessError(f'choice {ch} out of range at point {i} (enabled {[w.name for w in order]}): divergence while replaying a prefix')
                self.points.append({'n': len(order), 'chosen': ch, 'running_enabled': run_en, 'enabled': [w.name for w in order]})
                w = order[ch]
                self.running = w
                self.trace.append((w.name,) + tuple(w.pending))
                w.pending = None
                w.conn.send('go')
                self._recv(w)
                steps += 1
                if steps > self.horizon:
                    self._abort([x for x in self.workers if not x.finished])
                    raise HarnessError('horizon exceeded (livelock?)')
        finally:
            for w in self.workers:
                if not w.finished:
                    self._kill(w)
                w.conn.close()
        return self

    def _abort(self, alive):
        self.aborting = True
        for w in alive:
            self._kill(w)

    def _kill(self, w):
        import signal

        if w.finished:
            return
        try:
            os.kill(w.pid, signal.SIGKILL)
            os.waitpid(w.pid, 0)
        except (ProcessLookupError, ChildProcessError):
            pass
        w.finished = True
        if w.result is None:
            w.result = ('aborted', None)
