from tcv.cli import main

raise SystemExit(main())
