#!/bin/bash
# for every seed under /verif/seeded: run the quick check of its property against a scratch copy with the patch; append to seeded/RESULTS.txt
out=/verif/seeded/RESULTS.txt; : > $out
for d in /verif/seeded/*/; do
  name=$(basename $d); prop=$(echo $name | cut -d_ -f1)
  if grep -q '"superseded"' $d/meta.json 2>/dev/null; then echo "$name SUPERSEDED (see meta.json)" >> $out; continue; fi
  cp $d/patch.diff /dev/shm/$name.diff
  EXPECT=$prop tools/mutants.sh $out /dev/shm/$name.diff; rm -f /dev/shm/$name.diff
done
