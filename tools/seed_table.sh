#!/bin/bash
# for every confirmed seed under /verif/seeded: run the quick check of its property against a scratch copy with the patch; write seeded/RESULTS.txt
out=/verif/seeded/RESULTS.txt; : > $out
for d in /verif/seeded/*/; do
  name=$(basename $d); prop=$(echo $name | cut -d_ -f1)
  EXPECT=$prop tools/mutants.sh $out $d/patch.diff.tmp 2>/dev/null
done
