#!/bin/bash
# usage: tools/test_replay.sh <patch.diff> <ID>: with the patch: check must fail and each replay file must reproduce (rc=1) on the mutant and hold (rc=0) on /repo
patch=$(readlink -f $1); id=$2
d=$(mktemp -d /dev/shm/tcv-rp-XXXXXX); trap 'rm -rf "$d"' EXIT
mkdir -p $d/repo && cp -r /repo/src $d/repo/ && ( cd $d/repo && grep -v '^# expect' $patch | patch -p1 -s ) || exit 3
( cd /verif && TCV_REPO=$d/repo TCV_OUT=$d/out /venv/bin/python -m tcv check $id --tier quick > $d/log 2>&1 ); rc=$?
n=0; okm=0; okc=0
for f in $d/out/replays/$id/*.json; do
  [ -f "$f" ] || continue; n=$((n+1)); [ $n -gt 3 ] && break
  ( cd /verif && TCV_REPO=$d/repo /venv/bin/python -m tcv replay $f > $d/r1 2>&1 ); r1=$?
  ( cd /verif && /venv/bin/python -m tcv replay $f > $d/r2 2>&1 ); r2=$?
  [ $r1 = 1 ] && okm=$((okm+1)); [ $r2 = 0 ] && okc=$((okc+1))
  [ $r1 = 1 ] && [ $r2 = 0 ] || { echo "  replay $f mutant_rc=$r1 clean_rc=$r2"; tail -3 $d/r1; tail -3 $d/r2; }
done
echo "$id check_rc=$rc replays_tested=$n reproduced_on_mutant=$okm held_on_clean=$okc"
