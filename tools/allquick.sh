#!/bin/bash
# run every registered quick check for the given seeds; print one line per (check, seed)
seeds=${@:-0}
for s in $seeds; do
  for id in C01 C02 C03 C04 C05 C06 C07 C08 C09 C10 C11 C12 C13 C14 C15 C16 C17 C18 C19 C20; do
    t0=$(date +%s)
    VERIF_SEED=$s TCV_OUT=${TCV_OUT:-} /venv/bin/python -m tcv check $id --tier ${TIER:-quick} > /tmp/allquick.$id.$s.log 2>&1; rc=$?
    echo "seed=$s $id rc=$rc $(( $(date +%s) - t0 ))s $(grep -c '^VIOLATION' /tmp/allquick.$id.$s.log) viol $(grep -c '^KNOWN' /tmp/allquick.$id.$s.log) known"
  done
done
