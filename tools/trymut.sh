#!/bin/bash
# usage: tools/trymut.sh <patch.diff> <tier> <ID> [ID...]   -- run checks against a scratch copy of /repo with the patch applied
# never touches /repo; evidence/replays of the mutant run go to the scratch dir. Prints exit code per check.
set -u
patch=$1; tier=$2; shift 2
d=$(mktemp -d /dev/shm/tcv-mut-XXXXXX)
trap 'rm -rf "$d"' EXIT
mkdir -p $d/repo && cp -r /repo/src /repo/tests /repo/pyproject.toml $d/repo/ 2>/dev/null
( cd $d/repo && patch -p1 -s < "$patch" ) || { echo "PATCH-FAILED $patch"; exit 3; }
if [ "${TESTS:-0}" = 1 ]; then
  ( cd $d/repo && PYTHONPATH=$d/repo/src timeout 900 /venv/bin/python -m pytest -q -p no:cacheprovider --timeout=900 -x 2>&1 | tail -1 )
fi
for id in "$@"; do
  ( cd /verif && TCV_REPO=$d/repo TCV_OUT=$d/out timeout ${TMO:-1800} /venv/bin/python -m tcv check $id --tier $tier > $d/log.$id 2>&1 ); rc=$?
  echo "== $id rc=$rc $(grep -c '^VIOLATION' $d/log.$id) violation line(s)"
  grep -A2 '^VIOLATION' $d/log.$id | head -${LINES_SHOWN:-6} | cut -c1-400
  [ $rc = 2 ] && tail -15 $d/log.$id
done
