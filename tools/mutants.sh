#!/bin/bash
# usage: tools/mutants.sh <out-file> <diff>...   For each diff (first line "# expect: IDs"): scratch copy of /repo, apply, run the
# repository's test suite (mutants that fail it are not realistic and are reported as EXCLUDED), then the quick checks named in the expect line.
out=$1; shift
for f in "$@"; do
  f=$(readlink -f "$f")
  name=$(basename $f .diff)
  expect=$(head -1 $f | sed -n 's/^# expect: //p')
  [ -z "$expect" ] && expect=${EXPECT:-}
  d=$(mktemp -d /dev/shm/tcv-mut-XXXXXX)
  mkdir -p $d/repo && cp -r /repo/src /repo/tests /repo/pyproject.toml $d/repo/
  if ! ( cd $d/repo && grep -v '^# expect' $f | patch -p1 -s ) ; then echo "$name PATCH-FAILED" >> $out; rm -rf $d; continue; fi
  tests=$( cd $d/repo && PYTHONPATH=$d/repo/src timeout 900 /venv/bin/python -m pytest -q -p no:cacheprovider --timeout=900 -x 2>&1 | tail -1 )
  if ! echo "$tests" | grep -q "128 passed"; then echo "$name EXCLUDED-fails-test-suite ($(echo $tests | cut -c1-60))" >> $out; rm -rf $d; continue; fi
  line="$name tests=128-pass"
  for id in $expect; do
    ( cd /verif && TCV_REPO=$d/repo TCV_OUT=$d/out timeout 1800 /venv/bin/python -m tcv check $id --tier quick > $d/log.$id 2>&1 ); rc=$?
    sig=$(grep -m1 'signature:' $d/log.$id | cut -c14-110)
    line="$line | $id rc=$rc [$sig]"
  done
  echo "$line" >> $out
  rm -rf $d
done
