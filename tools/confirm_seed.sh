#!/bin/bash
# usage: tools/confirm_seed.sh /tmp/seeded/C04_a  -> confirms (tests pass with patch, demo fails with, passes without) on a scratch copy of /repo HEAD;
# on success copies the directory to /verif/seeded/<name>/ with a "confirmed" block in meta.json
set -u
src=$1; name=$(basename $src)
d=$(mktemp -d /dev/shm/tcv-seed-XXXXXX); trap 'rm -rf "$d"' EXIT
mkdir -p $d/clean $d/mut
for x in clean mut; do cp -r /repo/src /repo/tests /repo/pyproject.toml $d/$x/; done
( cd $d/mut && patch -p1 -s < $src/patch.diff ) || { echo "$name PATCH-FAILED"; exit 3; }
demo=$src/demo.py; [ -f $demo ] || demo=$src/demo_test.py
run_demo() { ( cd $1 && PYTHONPATH=$1/src timeout 300 /venv/bin/python $demo > $d/demo.$2.log 2>&1 ); echo $?; }
rc_clean=$(run_demo $d/clean clean)
rc_mut=$(run_demo $d/mut mut)
tests=$( cd $d/mut && PYTHONPATH=$d/mut/src timeout 900 /venv/bin/python -m pytest -q -p no:cacheprovider --timeout=900 2>&1 | tail -1 )
echo "$name demo_clean_rc=$rc_clean demo_mut_rc=$rc_mut tests: $tests"
if [ "$rc_clean" = 0 ] && [ "$rc_mut" != 0 ] && echo "$tests" | grep -q "128 passed"; then
  mkdir -p /verif/seeded/$name && cp $src/patch.diff /verif/seeded/$name/ && cp $demo /verif/seeded/$name/
  /venv/bin/python - "$src/meta.json" "/verif/seeded/$name/meta.json" "$rc_clean" "$rc_mut" "$tests" <<'PY'
import json,sys
m=json.load(open(sys.argv[1]))
m['confirmed']={'by':'tools/confirm_seed.sh on a scratch copy of /repo HEAD (with fix: commits)','demo_rc_without_patch':int(sys.argv[3]),'demo_rc_with_patch':int(sys.argv[4]),'test_suite_with_patch':sys.argv[5]}
json.dump(m,open(sys.argv[2],'w'),indent=1)
PY
  echo "$name CONFIRMED"
else
  echo "$name NOT-CONFIRMED"; tail -5 $d/demo.clean.log
fi
